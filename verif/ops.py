"""
Random "programs": chains of public-API operations on pools of diagrams.

`step(rng, kit, pool, emit)` picks one operation, applies it to members of the
pool and calls `emit(label, value)` for every diagram the library returns or
yields.  Exceptions are returned to the caller as (label, exception) through
`emit_exc`; what they mean is the business of the property using this module.
"""
import itertools

STEP_CAP = 60


def _pick(rng, pool):
    return pool[rng.randrange(len(pool))]


def op_then(rng, kit, pool, emit):
    a = _pick(rng, pool)
    b = kit.rand_diagram(rng, rng.randint(0, 3), dom=a.cod)
    emit("then", a >> b)
    emit("then<<", b << a)
    if rng.random() < .3:
        c = kit.rand_diagram(rng, rng.randint(0, 2), dom=b.cod)
        emit("then*", a.then(b, c))


def op_tensor(rng, kit, pool, emit):
    a, b = _pick(rng, pool), _pick(rng, pool)
    if len(a.cod) + len(b.cod) > 7 or len(a) + len(b) > 16:
        b = kit.rand_diagram(rng, 1, width=1)
    emit("tensor", a @ b)
    if rng.random() < .3:
        emit("tensor*", a.tensor(b, kit.rand_diagram(rng, 1, width=1)))


def op_dagger(rng, kit, pool, emit):
    a = _pick(rng, pool)
    emit("dagger", a[::-1])
    emit("dagger()", a.dagger())


def op_slice(rng, kit, pool, emit):
    a = _pick(rng, pool)
    n = len(a)
    i, j = sorted((rng.randint(-n - 1, n + 1), rng.randint(-n - 1, n + 1)))
    emit("slice", a[i:j])
    emit("slice:", a[i:])
    emit(":slice", a[:j])
    if n:
        emit("index", a[rng.randrange(n)])
    # reversed slices: the dagger of a part of the diagram
    emit("slice-reversed", a[j:i:-1] if rng.random() < .5 else a[j::-1])
    emit("slice-reversed:", a[:i:-1])


def op_interchange(rng, kit, pool, emit):
    a = _pick(rng, pool)
    if len(a) < 2:
        return
    i, j = rng.randrange(len(a)), rng.randrange(len(a))
    emit("interchange", a.interchange(i, j, left=rng.random() < .5))


def op_normalize(rng, kit, pool, emit):
    a = _pick(rng, pool)
    if len(a) > 10:
        return
    left = rng.random() < .5
    for step in itertools.islice(a.normalize(left=left), STEP_CAP):
        emit("normalize-step", step)


def op_normal_form(rng, kit, pool, emit):
    a = _pick(rng, pool)
    if len(a) > 9:
        return
    emit("normal_form", a.normal_form())


def op_foliate(rng, kit, pool, emit):
    a = _pick(rng, pool)
    if len(a) > 9:
        return
    for step in itertools.islice(a.foliate(), STEP_CAP):
        emit("foliate-step", step)
    fol = a.foliation()
    emit("foliation", fol)
    emit("flatten", fol.flatten())
    for inner in fol.boxes:
        emit("foliation-slice", inner)


def op_swap(rng, kit, pool, emit):
    left = kit.rand_ty(rng, rng.randint(0, 3))
    right = kit.rand_ty(rng, rng.randint(0, 3))
    emit("swap", kit.Diagram.swap(left, right))


def op_permutation(rng, kit, pool, emit):
    a = _pick(rng, pool)
    n = len(a.cod)
    if n > 6:
        return
    perm = list(range(n))
    rng.shuffle(perm)
    emit("permute", kit.id(a.cod).permute(*perm))
    if a.dom == a.cod:
        emit("permute-endo", a.permute(*perm))
    emit("permutation", kit.Diagram.permutation(perm, a.cod))


def op_functor(rng, kit, pool, emit):
    a = _pick(rng, pool)
    mod = kit.mod
    if not hasattr(mod, "Functor"):
        return
    kwargs = {}
    if kit.name in ("monoidal", "rigid"):
        functor = mod.Functor(lambda x: x, lambda f: f)
        emit("functor-id", functor(a))
        def ob(x):
            return x @ x

        def image(ty):
            return type(ty)().tensor(*[ob(ty[i:i + 1]) for i in range(len(ty))])

        def ar(f):
            return kit.Box(f.name, image(f.dom), image(f.cod))
        if len(a.dom) + len(a.cod) <= 5 and len(a) <= 5 and kit.name == "monoidal":
            emit("functor-double", mod.Functor(ob, ar)(a))
        empty = mod.Functor(
            lambda x: type(x)(), lambda f: mod.Id(type(f.dom)()))
        emit("functor-empty", empty(a))


def _payload_size(diagram):
    """ Number of array entries carried by the boxes (tensor diagrams). """
    total = 0
    for box in getattr(diagram, "boxes", []):
        data = getattr(box, "data", None)
        total += getattr(data, "size", 0) or (
            len(data) if isinstance(data, (list, tuple)) else 0)
    return total


def _dim_size(ty):
    size = 1
    for ob in getattr(ty, "objects", []):
        name = getattr(ob, "name", ob)
        if isinstance(name, int) and name > 0:
            size *= name
    return size


def op_sum(rng, kit, pool, emit):
    a = _pick(rng, pool)
    if _payload_size(a) > 1500 or _dim_size(a.dom) * _dim_size(a.cod) > 4096:
        # the second term needs a box a.dom -> a.cod: for tensor diagrams its
        # array has dim(dom) * dim(cod) entries, and building a Sum prints and
        # scans the payload of every term several times over (name, free
        # symbols) - minutes, and nothing about types is learnt from it
        return
    b = kit.rand_diagram(rng, rng.randint(0, 2), dom=a.dom)
    try:
        fix = kit.box_with_dom(rng, b.cod, cod=a.cod)
    except (TypeError, NotImplementedError):
        return
    b = b >> fix
    total = a + b
    emit("sum", total)
    emit("sum-dagger", total[::-1])
    c = kit.rand_diagram(rng, 1, dom=a.cod)
    emit("sum-then", total >> c)
    emit("sum-tensor", total @ c)


def op_downgrade(rng, kit, pool, emit):
    a = _pick(rng, pool)
    emit("downgrade", a.downgrade())
    emit("open_bubbles", a.open_bubbles())


def op_bubble(rng, kit, pool, emit):
    a = _pick(rng, pool)
    emit("bubble", a.bubble())


def op_rigid(rng, kit, pool, emit):
    a = _pick(rng, pool)
    mod = kit.mod
    choice = rng.randrange(6)
    if choice == 0:
        t = kit.rand_ty(rng, rng.randint(0, 3))
        emit("cups", mod.Diagram.cups(t, t.r))
        emit("cups-l", mod.Diagram.cups(t.l, t))
    elif choice == 1:
        t = kit.rand_ty(rng, rng.randint(0, 3))
        emit("caps", mod.Diagram.caps(t, t.l))
        emit("caps-r", mod.Diagram.caps(t.r, t))
    elif choice == 2 and len(a.dom) + len(a.cod) <= 4:
        emit("transpose", a.transpose(left=rng.random() < .5))
    elif choice == 3 and len(a.dom):
        n = rng.randint(1, len(a.dom))
        emit("curry", mod.Diagram.curry(a, n, left=rng.random() < .5))
    elif choice == 4:
        x, y, z = (kit.rand_ty(rng, rng.randint(0, 2)) for _ in range(3))
        emit("fa", mod.Diagram.fa(x @ y.l, y))
        emit("ba", mod.Diagram.ba(x, x.r @ y))
        emit("fc", mod.Diagram.fc(x, y, z))
        emit("bc", mod.Diagram.bc(x, y, z))
        emit("fx", mod.Diagram.fx(x, y, z))
        emit("bx", mod.Diagram.bx(x, y, z))
    elif choice == 5 and len(a) <= 8:
        for step in itertools.islice(a.normalize(), STEP_CAP):
            emit("snake-step", step)


GENERIC = [op_then, op_then, op_tensor, op_tensor, op_dagger, op_slice,
           op_slice, op_interchange, op_interchange, op_normalize,
           op_normal_form, op_foliate, op_swap, op_permutation, op_functor,
           op_sum, op_downgrade]


def ops_for(kit):
    ops = list(GENERIC)
    if kit.name in ("rigid",):
        ops += [op_rigid, op_rigid, op_rigid]
    if kit.name in ("monoidal", "rigid"):
        ops += [op_bubble]
    if kit.name == "cartesian":
        ops = [op for op in ops if op not in (op_swap, op_permutation, op_sum,
                                              op_downgrade, op_functor)]
    if kit.name == "biclosed":
        ops = [op for op in ops if op not in (op_swap, op_permutation)]
    if kit.name == "zx":
        ops = [op for op in ops if op not in (op_sum,)]
    if kit.name == "circuit":
        ops = [op for op in ops if op not in (op_sum,)]
    return ops
