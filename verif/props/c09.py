"""
C09 - evaluating a diagram computes its compositional meaning.

tensor.Functor(ob, ar)(d) and tensor.Diagram.eval() are compared with
models.kron_eval.evaluate(d, interp): the layer-by-layer product of
I (x) M(box) (x) I Kronecker matrices under the very interpretation handed to
the functor (swaps / cups / caps / spiders by their defining tensors, daggered
boxes by the conjugate transpose, bubbles by func applied elementwise to the
reference value of the inside, sums by adding).

Monitors
  functor-equals-kron-eval        rigid diagrams, generic seeded interpretation
  functor-on-generators           F(box), F(cup), F(cap), F(swap) one at a time
  functor-dom-cod                 dom / cod / array shape / class of every result
  functor-multiwire-equals-kron-eval   object images with several wires
                                  (diagrams without cups and caps)
  functor-sum-equals-kron-eval    F(sum of rigid diagrams) = sum of references
  eval-equals-kron-eval           tensor.Diagram.eval() (boxes, swaps, spiders,
                                  bubbles, sums) vs reference on box data
  eval-equals-identity-functor    eval() = explicit identity-on-arrays Functor
                                  given as dicts
  invariance-under-interchange    F(d.interchange(i, j)) = F(d)
  invariance-under-normal-form    F(d.normal_form()) = F(d)
"""
import numpy

from verif.gen import kits
from verif.instrument import safe_repr
from verif.models import kron_eval as ke
from verif.models.typing import well_typed

ID = "C09"
RULE = ("case families by index: rigid diagram (cups, caps, swaps, daggered "
        "boxes, adjoints up to z=+-2, composite swaps/cups/caps/transposes/"
        "permutations appended) under a seeded generic interpretation with "
        "dimensions {1,2,3} per atomic type, handed over as int/Dim and "
        "dict/callable; the same without cups under multi-wire images; "
        "tensor diagrams of Box/Swap/Spider/Bubble/Sum through eval().  "
        "Every case also evaluates up to 8 interchanges and the normal form.  "
        "Non-trivial = >= 2 boxes and a non-scalar or multi-layer value; "
        "distinct by repr of the diagram and the interpretation."
        "  Also: one functor object reconfigured between three calls; multi-wire snakes (palindromic images) against the cup-free normal form.")
SIZES = {"quick": (16, 250), "thorough": (16, 3000)}
TIMEOUT = {"quick": 600, "thorough": 5400}
COVER = {
    "discopy.tensor:Functor.__call__": 0.9,
    "discopy.tensor:Functor.__call__.obj_to_dim": 0.8,
    "discopy.tensor:Functor.__call__.dim": 0.9,
    "discopy.tensor:Diagram.eval": 0.4,      # the contractor branch is not used
    "discopy.tensor:Sum.eval": 0.9,
    "discopy.tensor:Tensor.map": 0.9,
    "discopy.tensor:Spider.__init__": 0.8,   # ValueError for len(dim) > 1
}
MIN_EVALS = {
    "quick": {"functor-equals-kron-eval": 1800,
              "functor-multiwire-equals-kron-eval": 440,
              "functor-on-generators": 5800,
              "functor-sum-equals-kron-eval": 600, "functor-dom-cod": 28000,
              "eval-equals-kron-eval": 2400,
              "eval-equals-identity-functor": 1100,
              "invariance-under-interchange": 9500,
              "invariance-under-normal-form": 3000},
    "thorough": {"functor-equals-kron-eval": 21000,
                 "functor-multiwire-equals-kron-eval": 5300,
                 "functor-on-generators": 70000,
                 "functor-sum-equals-kron-eval": 7500,
                 "functor-dom-cod": 330000, "eval-equals-kron-eval": 29000,
                 "eval-equals-identity-functor": 13000,
                 "invariance-under-interchange": 115000,
                 "invariance-under-normal-form": 36000}}
ASSUMPTIONS = [
    "dimension per atomic type NAME, the same for every winding number "
    "(self-dual), as the statement's 'dimension per atomic type'",
    "multi-wire object images (e.g. Dim(2, 3)) are used only on diagrams "
    "without cups/caps; with adjoint types only the multiset of wire "
    "dimensions of dom/cod is compared there",
    "an exception from interchange / normal_form is a refusal judged by "
    "C05-C07, not by C09; a returned diagram must evaluate to the same tensor",
    "boolean bubbles are used on integer data only (exact on both sides); "
    "spiders have at least one leg; sums evaluated through eval() are non-empty",
    "allclose(rtol=1e-9, atol=1e-9); layer dimension <= 512"]
TECHNIQUE = ("runtime monitoring: reference-model monitor, Kronecker-product "
             "evaluator vs. discopy.tensor.Functor / Diagram.eval")

WIDTH_CAP = 512
_K = {}


# -- generators ------------------------------------------------------------------

class SwapOnlyKit(kits.RigidKit):
    """ Rigid diagrams with swaps and adjoint types but no cups / caps. """
    def structural_layer(self, rng, scan):
        if len(scan) >= 2:
            i = rng.randint(0, len(scan) - 2)
            return i, self.mod.Swap(scan[i:i + 1], scan[i + 1:i + 2])
        return None


class SpiderKit(kits.TensorKit):
    """ tensor diagrams; `ints` restricts box data to integers. """
    def __init__(self, ints=False):
        super().__init__()
        self.ints = ints

    def box_with_dom(self, rng, dom, cod=None):
        if not self.ints:
            return super().box_with_dom(rng, dom, cod)
        cod = self.rand_cod(rng, dom) if cod is None else cod
        size = ke.prod(ob.name for ob in dom.objects + cod.objects)
        data = [rng.randint(-2, 2) for _ in range(size)]
        name = rng.choice(kits.LETTERS)
        if rng.random() < .2:
            return self.Box(name, cod, dom, data).dagger()
        return self.Box(name, dom, cod, data)

    def rand_layer(self, rng, scan):
        r = rng.random()
        names = [ob.name for ob in scan.objects]
        if r < .1:
            spots = [i for i in range(len(names) - 1)
                     if names[i] == names[i + 1]]
            if spots:
                i = rng.choice(spots)
                return i, self.mod.Spider(
                    2, rng.randint(0, 2), self.Ty(names[i]))
        if r < .13:
            dim = rng.choice([2, 3])
            return rng.randint(0, len(scan)), self.mod.Spider(
                0, rng.randint(1, 2), self.Ty(dim))
        return super().rand_layer(rng, scan)


def setup(ctx):
    from discopy import rigid, tensor, rewriting, cat
    _K.update(rigid=rigid, tensor=tensor, cat=cat,
              InterchangerError=rewriting.InterchangerError,
              rigid_kit=kits.RigidKit(zmax=2), swap_kit=SwapOnlyKit(zmax=2),
              tensor_kit=SpiderKit(), int_kit=SpiderKit(ints=True))


def decorate_rigid(rng, kit, d, cups=True):
    """ Appends composite structure built by the library's own helpers. """
    D, Id = kit.Diagram, kit.mod.Id
    choice = rng.randrange(8 if cups else 3)
    cod, dom = d.cod, d.dom
    if choice == 0 and len(cod) >= 2:          # composite swap
        i = rng.randint(0, len(cod) - 2)
        j = rng.randint(i + 1, min(len(cod) - 1, i + 2))
        k = rng.randint(j + 1, min(len(cod), j + 2))
        return d >> Id(cod[:i]) @ D.swap(cod[i:j], cod[j:k]) @ Id(cod[k:])
    if choice == 1 and len(cod) >= 2:          # permutation
        perm = list(range(len(cod)))
        rng.shuffle(perm)
        return d >> D.permutation(perm, cod)
    if choice == 2:
        return d.dagger()
    if choice == 3 and cod:                    # nested cups on the right
        n = rng.randint(1, min(2, len(cod)))
        t = cod[len(cod) - n:]
        return d @ Id(t.r) >> Id(cod[:len(cod) - n]) @ D.cups(t, t.r)
    if choice == 4 and cod:                    # nested cups on the left
        n = rng.randint(1, min(2, len(cod)))
        t = cod[:n]
        return Id(t.l) @ d >> D.cups(t.l, t) @ Id(cod[n:])
    if choice == 5 and dom:                    # nested caps
        n = rng.randint(1, min(2, len(dom)))
        t = dom[:n]
        return D.caps(t.r, t) @ Id(dom[n:]) >> Id(t.r) @ d
    if choice == 6 and len(dom) + len(cod) <= 3:
        return d.transpose(left=rng.random() < .5)
    if choice == 7 and dom:
        n = rng.randint(1, min(2, len(dom)))
        t = dom[len(dom) - n:]
        return Id(dom[:len(dom) - n]) @ D.caps(t, t.l) >> d @ Id(t.l)
    return d


def rand_interp(rng, multi=False):
    if multi:
        images = [(2, 3), 2, (2, 2), 3, (3, 2), 1]
        rng.shuffle(images)
        if not any(isinstance(x, tuple) for x in images[:2]):
            images[0] = (2, 3)
    else:
        images = rng.choice([[1, 2, 3], [2, 3, 1], [3, 1, 2], [2, 3, 2],
                             [3, 2, 2], [2, 1, 3], [3, 2, 1], [2, 2, 3]])
    ob_dims = dict(zip(kits.ATOMS, list(images) + [2]))
    return ke.Interp(rng, ob_dims=ob_dims)


def rigid_case_input(rng, kit, multi):
    """ (diagram, interp) within the width cap. """
    for attempt in range(8):
        nboxes = rng.randint(0, max(1, 6 - attempt))
        d = kit.rand_diagram(rng, nboxes, width=3 if not multi else 2)
        if rng.random() < .5:
            try:
                d = decorate_rigid(rng, kit, d, cups=not multi)
            except Exception:
                pass                 # construction helpers are not under test
        interp = rand_interp(rng, multi)
        if len(d) <= 9 and ke.max_width(d, interp) <= WIDTH_CAP:
            return d, interp
    return kit.id(kit.rand_ty(rng, 2)), rand_interp(rng, multi)


POLY = [("x*x+1", lambda x: x * x + 1), ("2x-1", lambda x: 2 * x - 1),
        ("conj", lambda x: x.conjugate()), ("x^3", lambda x: x ** 3),
        # functions whose return TYPE depends on the entry (int for some
        # entries, float/complex for others): an elementwise map must not let
        # the first entry decide the type of all the others
        ("relu", lambda x: x if complex(x).real > 0 else 0),
        ("clip", lambda x: 1 if abs(x) > 1 else x / 2)]


def as_dim(ty):
    """
    A composite tensor.Diagram reports dom/cod as rigid.Ty (equal to, but not,
    a Dim); tensor.Box needs a genuine Dim to reshape its data.
    """
    return _K["tensor"].Dim(*[ob.name for ob in ty.objects])


def tensor_case_input(rng):
    """ tensor.Diagram with spiders, swaps, maybe bubbles and sums. """
    tensor = _K["tensor"]
    boolean = rng.random() < .3
    kit = _K["int_kit"] if boolean else _K["tensor_kit"]
    Id = tensor.Id
    features = []
    for attempt in range(8):
        features = []
        tensor_case_input.parts = None
        d = kit.rand_diagram(rng, rng.randint(0, max(1, 4 - attempt // 2)),
                             width=2)
        r = rng.random()
        if r < .5:
            # bubble around a middle piece on a sub-type of the codomain
            cod = d.cod
            i = rng.randint(0, len(cod))
            j = rng.randint(i, min(len(cod), i + 2))
            inside = kit.rand_diagram(rng, rng.randint(0, 2),
                                      dom=as_dim(cod[i:j]), width=2)
            if boolean:
                bubble = inside.bubble() if rng.random() < .7 else\
                    inside.bubble().bubble()
                features.append("bubble:not")
            else:
                name, func = POLY[rng.randrange(len(POLY))]
                bubble = inside.bubble(func=func)
                features.append("bubble:" + name)
            d = d >> Id(cod[:i]) @ bubble @ Id(cod[j:])
            if not boolean and rng.random() < .45:
                # a second bubble around the SAME inside with another function:
                # the two differ in nothing but `func`
                name2, func2 = POLY[rng.randrange(len(POLY))]
                d = d @ inside.bubble(func=func2)
                features.append("twin-bubble:" + name2)
            if rng.random() < .6:
                d = d >> kit.rand_diagram(rng, rng.randint(1, 2),
                                          dom=as_dim(d.cod), width=2)
        if rng.random() < .2:
            # two boxes with one name and type whose (long) arrays differ only in
            # the middle, where numpy's summarised repr prints "..."
            big = [rng.randint(-3, 3) for _ in range(24)]
            other = list(big)
            other[11], other[12] = other[11] + 1, other[12] - 2
            twin_a = tensor.Box("big", tensor.Dim(2, 3), tensor.Dim(4), big)
            twin_b = tensor.Box("big", tensor.Dim(2, 3), tensor.Dim(4), other)
            d = d @ twin_a @ twin_b if rng.random() < .5 else twin_b @ d @ twin_a
            features.append("same-name-long-arrays")
        if rng.random() < .35:
            d = sum_of(rng, kit, d)
            features.append("sum:{}".format(len(d.terms)))
            if rng.random() < .3:
                if boolean:
                    d = d.bubble()
                    features.append("bubble-of-sum:not")
                else:
                    name, func = POLY[rng.randrange(len(POLY))]
                    d = d.bubble(func=func)
                    features.append("bubble-of-sum:" + name)
            if rng.random() < .4:
                # NB: Sum >> diagram comes back as a monoidal.Sum (no eval)
                d = d >> kit.rand_diagram(rng, 1, dom=as_dim(d.cod), width=2)
                features.append(">>tail")
            elif rng.random() < .4:
                # a plain diagram tensored with a sum, the sum on the RIGHT or on
                # the left (the operands have different wire types in general)
                side = kit.rand_diagram(rng, rng.randint(1, 2), width=2)
                if rng.random() < .6:
                    parts = (side, d)
                    d = side @ d
                    features.append("plain@sum")
                else:
                    parts = (d, side)
                    d = d @ side
                    features.append("sum@plain")
                if ke.max_width(d, ke.DataInterp()) <= WIDTH_CAP:
                    tensor_case_input.parts = parts
        if ke.max_width(d, ke.DataInterp()) <= WIDTH_CAP:
            return d, features
    tensor_case_input.parts = None
    return kit.id(kit.rand_ty(rng, 2)), []


def sum_of(rng, kit, d):
    """ A tensor.Sum of 1..3 diagrams parallel to d. """
    tensor = _K["tensor"]
    terms = [d]
    size = ke.prod(ob.name for ob in d.cod.objects)
    for _ in range(rng.randint(0, 2)):
        kind = rng.randrange(3)
        if kind == 0 and size <= 16:
            data = [rng.randint(-2, 2) for _ in range(size * size)]
            terms.append(d >> tensor.Box("e", as_dim(d.cod), as_dim(d.cod),
                                         data))
        elif kind == 1:
            scalar = tensor.Box("s", tensor.Dim(1), tensor.Dim(1),
                                [rng.randint(-2, 3)])
            terms.append(d @ scalar if rng.random() < .5 else scalar @ d)
        else:
            terms.append(d)
    if rng.random() < .5:
        total = terms[0]
        for term in terms[1:]:
            total = total + term
        return total if len(terms) > 1 else tensor.Sum(terms)
    return tensor.Sum(terms, d.dom, d.cod)


# -- judging ---------------------------------------------------------------------------

def strip(dims):
    return tuple(x for x in dims if x != 1)


def has_adjoints(ty):
    return any(getattr(ob, "z", 0) for ob in ty.objects)


def judge(ctx, monitor, value, reference, dom_wires, cod_wires, loose=False,
          **witness):
    """
    value: what discopy returned; reference: 2-D matrix; *_wires: expected
    dimension tuples.  `loose`: only the multiset of wires is prescribed.
    """
    try:
        got_dom, got_cod = ke.dims_of(value.dom), ke.dims_of(value.cod)
        shape = tuple(numpy.shape(value.array))
        cls = type(value).__name__
    except Exception as err:
        ctx.fail("functor-dom-cod", where=monitor,
                 problem="result is not a tensor: {}".format(
                     safe_repr(value, 200)), error=repr(err), **witness)
        return False
    exp_dom, exp_cod = strip(dom_wires), strip(cod_wires)
    if loose:
        typed = sorted(got_dom) == sorted(exp_dom)\
            and sorted(got_cod) == sorted(exp_cod)
    else:
        typed = got_dom == exp_dom and got_cod == exp_cod
    typed = typed and shape == (got_dom + got_cod or (1, ))\
        and cls == "Tensor"
    if not ctx.expect("functor-dom-cod", typed, where=monitor,
                      expected_dom=list(exp_dom), expected_cod=list(exp_cod),
                      dom=repr(value.dom), cod=repr(value.cod),
                      array_shape=list(shape), cls=cls, **witness):
        return False
    actual = numpy.asarray(value.array).reshape(reference.shape)\
        if numpy.size(value.array) == reference.size else None
    same = actual is not None and numpy.allclose(
        actual.astype(complex), numpy.asarray(reference).astype(complex),
        rtol=1e-9, atol=1e-9)
    return ctx.expect(
        monitor, same,
        max_abs_diff=lambda: float(numpy.max(numpy.abs(actual - reference)))
        if actual is not None and actual.size else None,
        actual=lambda: numpy.round(actual, 6).tolist()
        if actual is not None and actual.size <= 24 else "<large>",
        reference=lambda: numpy.round(reference, 6).tolist()
        if reference.size <= 24 else "<large>", **witness)


def moves(rng, d, cap=8):
    n = len(d)
    if n < 2:
        return []
    pairs = [(i, i + 1) for i in range(n - 1)]\
        + [(i + 1, i) for i in range(n - 1)]
    for _ in range(3):
        pairs.append((rng.randrange(n), rng.randrange(n)))
    rng.shuffle(pairs)
    return [(i, j, rng.random() < .35) for i, j in pairs[:cap]]


def invariance(rng, ctx, d, evaluate, reference, dom_wires, cod_wires,
               loose, **witness):
    """ F(d.interchange(i, j)) and F(d.normal_form()) against F(d)'s value. """
    for i, j, left in moves(rng, d):
        try:
            moved = d.interchange(i, j, left=left)
        except _K["InterchangerError"]:
            ctx.refuse("interchange:InterchangerError")
            continue
        except Exception as err:
            ctx.refuse("interchange:" + type(err).__name__)
            continue
        judge(ctx, "invariance-under-interchange", evaluate(moved), reference,
              dom_wires, cod_wires, loose, move=[i, j, left],
              moved=lambda: safe_repr(moved, 900), **witness)
    if len(d) > 8:
        return
    try:
        normal = d.normal_form()
    except NotImplementedError:
        ctx.refuse("normal_form:NotImplementedError")
        return
    except Exception as err:
        ctx.refuse("normal_form:" + type(err).__name__)
        return
    try:
        ok, _ = well_typed(normal)
    except Exception:
        ok = False
    if not ok:
        ctx.refuse("normal_form:returned-ill-typed-diagram(C01/C07)")
        return
    judge(ctx, "invariance-under-normal-form", evaluate(normal), reference,
          dom_wires, cod_wires, loose,
          normal_form=lambda: safe_repr(normal, 900), **witness)


def describe(d, interp=None, **more):
    out = dict(diagram=safe_repr(d, 1200),
               offsets=getattr(d, "offsets", None), **more)
    if interp is not None:
        out["ob_dims"] = {k: list(v) if isinstance(v, tuple) else v
                          for k, v in interp.ob_dims.items()}
    return out


# -- the three families ---------------------------------------------------------------------

def rigid_case(rng, ctx, multi):
    tensor = _K["tensor"]
    kit = _K["swap_kit"] if multi else _K["rigid_kit"]
    d, interp = rigid_case_input(rng, kit, multi)
    style = rng.choice(["callable", "dict", "dict-ob", "dict-ar"])
    ob_as = rng.choice(["int", "dim", "mixed"])
    ar_as = rng.choice(["array", "flat"])
    ob, ar = ke.functor_args(interp, d, style=style, ob_as=ob_as, ar_as=ar_as)
    F = tensor.Functor(ob, ar)
    reference = ke.evaluate(d, interp)
    dom_wires, cod_wires = interp.ty_wires(d.dom), interp.ty_wires(d.cod)
    loose = multi and (has_adjoints(d.dom) or has_adjoints(d.cod))
    witness = describe(d, interp, style=style, ob_as=ob_as, ar_as=ar_as)
    monitor = "functor-multiwire-equals-kron-eval" if multi\
        else "functor-equals-kron-eval"
    kinds = sorted({type(b).__name__ + ("+" if b.is_dagger else "")
                    for b in d.boxes})
    judge(ctx, monitor, F(d), reference, dom_wires, cod_wires, loose,
          box_kinds=kinds, **witness)
    if len(d) >= 2 and reference.size > 1:
        ctx.mark(repr(d) + repr(sorted(interp.ob_dims.items())) + style)
    if ctx.index < 24:
        ctx.sample(family="rigid-multiwire" if multi else "rigid",
                   diagram=safe_repr(d, 300), ob_dims=witness["ob_dims"],
                   style=style, ob_as=ob_as)
    # objects alone
    for ty in (d.dom, d.cod):
        try:
            image = F(ty)
            got = ke.dims_of(image)
            cls = type(image).__name__
        except Exception as err:
            got, cls = repr(err), None
        want = strip(interp.ty_wires(ty))
        fine = cls == "Dim" and (sorted(got) == sorted(want) if multi and
                                 has_adjoints(ty) else got == want)
        ctx.expect("functor-dom-cod", fine, where="F(type)", ty=repr(ty),
                   got=repr(got), expected=list(want), cls=cls, **witness)
    # generators one at a time
    seen = []
    for box in d.boxes:
        if len(seen) >= 4 or any(box is b for b in seen):
            continue
        seen.append(box)
        judge(ctx, "functor-on-generators", F(box), ke.evaluate(box, interp),
              interp.ty_wires(box.dom), interp.ty_wires(box.cod),
              multi and (has_adjoints(box.dom) or has_adjoints(box.cod)),
              box=safe_repr(box, 300), box_kind=type(box).__name__,
              is_dagger=bool(box.is_dagger), **witness)
    # sums of rigid diagrams
    if rng.random() < .3:
        terms = [d] * rng.randint(0, 3)
        if terms and rng.random() < .6:
            size = ke.prod(interp.ty_dims(d.cod))
            if size <= 27:
                terms.append(d >> kit.make_box("e", d.cod, d.cod, None))
        total = d.sum(terms, d.dom, d.cod)
        ob2, ar2 = ke.functor_args(interp, total, style=style, ob_as=ob_as,
                                   ar_as=ar_as)
        judge(ctx, "functor-sum-equals-kron-eval",
              tensor.Functor(ob2, ar2)(total), ke.evaluate(total, interp),
              dom_wires, cod_wires, loose, n_terms=len(terms), **witness)
    invariance(rng, ctx, d, F, reference, dom_wires, cod_wires, loose,
               family="rigid", **witness)
    if rng.random() < .35:
        reconfigured(rng, ctx, d, interp, multi, monitor, kinds)
    # requests outside the statement: counted only
    try:
        F("not a diagram")
        ctx.count("hostile_non_diagram_returned")
    except Exception as err:
        ctx.count("hostile_non_diagram_raised_" + type(err).__name__)
    if ctx.index % 16 == 1 and not multi:
        # object images written as a non-Dim type whose names are dimensions
        rigid = _K["rigid"]
        try:
            ob3 = (lambda ty: rigid.Ty(*interp.wires(ty.objects[0])))
            got = tensor.Functor(ob3, ke.functor_args(interp)[1])(d)
            same = numpy.allclose(ke.flat(got), reference, rtol=1e-9,
                                  atol=1e-9)
            ctx.count("images_as_plain_Ty_" + ("agree" if same else "differ"))
        except Exception as err:
            ctx.count("images_as_plain_Ty_raised_" + type(err).__name__)


def reconfigured(rng, ctx, d, interp, multi, monitor, kinds):
    """
    Histories: ONE functor object whose interpretation (the mapping it was given)
    is changed between two calls on the same diagram.  Each call must compute
    the meaning under the interpretation current at that call.
    """
    tensor = _K["tensor"]
    other = None
    for _ in range(6):
        other = rand_interp(rng, multi)
        if other.ob_dims != interp.ob_dims\
                and ke.max_width(d, other) <= WIDTH_CAP:
            break
        other = None
    if other is None:
        return
    now = {"interp": interp}
    if rng.random() < .5:
        ob = (lambda ty: now["interp"].ob_value(ty.objects[0], "int"))
        ar = (lambda box: now["interp"].raw(box))
        F = tensor.Functor(ob, ar)
        style = "callables reading a shared setting"

        def switch(to):
            now["interp"] = to
    else:
        ob, ar = ke.functor_args(interp, d, style="dict")
        F = tensor.Functor(ob, ar)
        style = "dicts updated in place"

        def switch(to):
            ob2, ar2 = ke.functor_args(to, d, style="dict")
            ob.update(ob2)
            ar.update(ar2)
    for k, current in enumerate([interp, other, interp]):
        if k:
            switch(current)
        loose = multi and (has_adjoints(d.dom) or has_adjoints(d.cod))
        try:
            value = F(d)
        except Exception as err:
            ctx.fail(monitor, exception=type(err).__name__,
                     message=str(err)[:300], call_number=k + 1, style=style,
                     history="same functor object, interpretation changed "
                     "between calls", **describe(d, current))
            break
        judge(ctx, monitor, value, ke.evaluate(d, current),
              current.ty_wires(d.dom), current.ty_wires(d.cod), loose,
              history="same functor object, interpretation changed between calls",
              call_number=k + 1, style=style, box_kinds=kinds,
              **describe(d, current))
    ctx.count("reconfigured_functor_cases")


def tensor_case(rng, ctx):
    tensor = _K["tensor"]
    d, features = tensor_case_input(rng)
    interp = ke.DataInterp()
    reference = ke.evaluate(d, interp)
    dom_wires, cod_wires = interp.ty_wires(d.dom), interp.ty_wires(d.cod)
    parts = tensor_case_input.parts
    if parts is not None:
        # the reference of `left @ right` comes from the OPERANDS, not from the
        # terms of the object the library built out of them
        by_parts = numpy.kron(ke.evaluate(parts[0], interp),
                              ke.evaluate(parts[1], interp))
        ctx.expect("eval-equals-kron-eval",
                   numpy.shape(by_parts) == numpy.shape(reference)
                   and numpy.allclose(by_parts, reference, rtol=1e-9, atol=1e-9)
                   and interp.ty_wires(parts[0].dom) + interp.ty_wires(parts[1].dom)
                   == dom_wires
                   and interp.ty_wires(parts[0].cod) + interp.ty_wires(parts[1].cod)
                   == cod_wires,
                   via="operands of @ vs the terms of the returned sum",
                   left=lambda: safe_repr(parts[0], 400),
                   right=lambda: safe_repr(parts[1], 400),
                   result=lambda: safe_repr(d, 600), features=features)
        ctx.count("tensor_of_a_diagram_and_a_sum_checked_against_operands")
    is_sum = isinstance(d, _K["cat"].Sum)
    kinds = sorted({type(b).__name__ + ("+" if b.is_dagger else "")
                    for t in (d.terms if is_sum else [d])
                    for b in t.boxes})
    witness = describe(d, features=features, box_kinds=kinds)
    if is_sum and not d.terms:
        ctx.count("empty_sum_not_evaluated_through_eval")
        value = None
    elif not hasattr(d, "eval"):
        ctx.count("sum_without_eval_method_" + type(d).__module__)
        value = None
    else:
        value = d.eval()
        judge(ctx, "eval-equals-kron-eval", value, reference, dom_wires,
              cod_wires, **witness)
    n_boxes = sum(len(t.boxes) for t in (d.terms if is_sum else [d]))
    if n_boxes >= 2:
        ctx.mark(repr(d))
    if ctx.index < 24:
        ctx.sample(family="tensor", diagram=safe_repr(d, 300),
                   features=features)
    style = rng.choice(["dict", "dict", "dict-ob", "dict-ar", "callable"])
    ob_as = rng.choice(["int", "dim", "mixed"])
    ar_as = rng.choice(["array", "flat"])
    ob, ar = ke.functor_args(interp, d, style=style, ob_as=ob_as, ar_as=ar_as)
    F = tensor.Functor(ob, ar)
    explicit = F(d)
    judge(ctx, "eval-equals-kron-eval", explicit, reference, dom_wires,
          cod_wires, via="explicit functor", style=style, ob_as=ob_as,
          **witness)
    if is_sum and d.terms:
        # history: the same Sum object after it has been an operand of +, @, >>
        # (the results are dropped): it still evaluates to what it did before
        try:
            d + d.terms[0]
            d.terms[0] + d
            d @ tensor.Id(tensor.Dim(2))
            d >> tensor.Id(d.cod)
        except Exception as err:
            ctx.count("sum_operand_use_raised_" + type(err).__name__)
        judge(ctx, "eval-equals-kron-eval", F(d), reference, dom_wires, cod_wires,
              via="explicit functor", history="sum reused after being an operand",
              **witness)
        if value is not None:
            judge(ctx, "eval-equals-kron-eval", d.eval(), reference, dom_wires,
                  cod_wires, history="sum reused after being an operand", **witness)
        ctx.count("sums_re_evaluated_after_use_as_operand")
    if value is not None:
        try:
            same = numpy.shape(value.array) == numpy.shape(explicit.array)\
                and numpy.allclose(numpy.asarray(value.array).astype(complex),
                                   numpy.asarray(explicit.array).astype(
                                       complex), rtol=1e-9, atol=1e-9)\
                and ke.dims_of(value.dom) == ke.dims_of(explicit.dom)\
                and ke.dims_of(value.cod) == ke.dims_of(explicit.cod)
        except Exception:
            same = False
        ctx.expect("eval-equals-identity-functor", same, style=style,
                   ob_as=ob_as, eval=lambda: safe_repr(value, 400),
                   functor=lambda: safe_repr(explicit, 400), **witness)
    if not is_sum:
        invariance(rng, ctx, d, lambda x: x.eval(), reference, dom_wires,
                   cod_wires, False, family="tensor", **witness)


def multiwire_snakes(rng, ctx):
    """
    Evaluation is invariant under normalisation, also when an atomic type is
    sent to SEVERAL wires: a box transposed one way and back the other way is
    a pair of snakes around it; its cup-free normal form is evaluated by the
    reference, the diagram with the nested cups and caps by the functor.  The
    multi-wire images are palindromes (the object map ignores winding numbers,
    so the adjoint of a non-palindromic image is not available).
    """
    tensor, rigid = _K["tensor"], _K["rigid"]
    palindromes = [(2, 2), (3, 3), (2, 3, 2), (2, 2, 2), 2, 3]
    rng.shuffle(palindromes)
    if not any(isinstance(p, tuple) for p in palindromes[:2]):
        palindromes[0] = (2, 2)
    ob_dims = dict(zip(kits.ATOMS, palindromes))
    interp = ke.Interp(rng, ob_dims=ob_dims)
    atoms = [rigid.Ty(name) for name in kits.ATOMS[:3]]

    def ty(n):
        out = rigid.Ty()
        for _ in range(n):
            out = out @ rng.choice(atoms)
        return out
    dom, cod = ty(rng.randint(0, 2)), ty(rng.randint(0, 2))
    if not len(dom @ cod):
        dom = ty(1)
    g = rigid.Box(rng.choice("fgh"), dom, cod)
    left = rng.random() < .5
    d = g.transpose(left=left).transpose(left=not left)
    if rng.random() < .5:
        tail = rigid.Box("t", cod, ty(rng.randint(0, 1)))
        d = d >> tail
    if ke.max_width(d, interp) > WIDTH_CAP:
        ctx.count("multiwire_snakes_skipped_too_wide")
        return
    witness = describe(d, interp, family="multiwire-snakes")
    try:
        nf = d.normal_form()
    except Exception as err:
        ctx.count("multiwire_snakes_normal_form_raised:" + type(err).__name__)
        return
    if any(isinstance(b, (rigid.Cup, rigid.Cap)) for b in nf.boxes):
        ctx.count("multiwire_snakes_not_removed")
        return
    ob, ar = ke.functor_args(interp, d, style=rng.choice(["callable", "dict"]))
    try:
        value = tensor.Functor(ob, ar)(d)
    except Exception as err:
        ctx.fail("invariance-under-normal-form", exception=type(err).__name__,
                 message=str(err)[:300], **witness)
        return
    judge(ctx, "invariance-under-normal-form", value, ke.evaluate(nf, interp),
          interp.ty_wires(d.dom), interp.ty_wires(d.cod), False,
          normal_form=safe_repr(nf, 300), **witness)
    ctx.count("multiwire_snakes")
    ctx.mark("snakes" + repr(d) + repr(sorted(ob_dims.items())))


def run_case(rng, ctx):
    family = ctx.index % 8
    if family in (0, 1, 2, 3):
        rigid_case(rng, ctx, multi=False)
    elif family == 4:
        if ctx.index % 16 == 4:
            multiwire_snakes(rng, ctx)
        else:
            rigid_case(rng, ctx, multi=True)
    else:
        tensor_case(rng, ctx)
