"""
C08 - tensors form a dagger compact-closed category of matrices.

mat(t) = t.array.reshape(prod dom, prod cod).  Every law is decided with numpy
on matrices the harness built itself from the data it handed to the
constructor; nothing of discopy is used on the expected side.

Monitors
  constructor-keeps-array        mat(Tensor(dom, cod, data)) is the data
  then-is-matrix-product         mat(f >> g) = mat(f) . mat(g)  (also f.then(g, h))
  tensor-is-kronecker            mat(f @ h) = kron(mat f, mat h) (also f.tensor(h, k))
  dagger-is-conjugate-transpose  mat(f.dagger()) = mat(f)^H ; dagger involutive
  id-is-identity                 mat(id(A)) = I ; id >> f = f = f >> id ; unit of @
  swap-is-block-permutation      mat(swap(A, D)) = permutation built entry by entry
  cups-caps-defining-tensor      cups(X, X.r) = sum |i><rev i| entry by entry; caps = cups^H
  snake-equations                both yanking equations for (composite) X
  interchange-law                (f @ h) >> (g @ k) = (f >> g) @ (h >> k)
  swap-naturality                (f @ h) >> swap = swap >> (h @ f)
  result-dom-cod                 dom, cod and array shape of every result
"""
import itertools

import numpy

from verif.models import kron_eval as ke

ID = "C08"
RULE = ("case k enumerates (dom, cod) over all tuples of {1,2,3,4} of length "
        "<= 2 (quick) / <= 3 (thorough) -- every pair is visited -- and draws "
        "partner shapes C, D, E, F and an array kind (generic complex, real, "
        "integer, Gaussian integer, one-hot) from the case PRNG; all eleven "
        "monitors are evaluated on it.  Non-trivial = the first tensor has "
        ">= 2 entries; distinct by (shapes, kind).")
SIZES = {"quick": (16, 40), "thorough": (16, 460)}
TIMEOUT = {"quick": 600, "thorough": 5400}
COVER = {
    # one continuation line in then/tensor (`else self.array * other.array`)
    # needs a 0-d array, which the constructor never produces
    "discopy.tensor:Tensor.then": 0.9,
    "discopy.tensor:Tensor.tensor": 0.9,
    "discopy.tensor:Tensor.dagger": 0.95,
    "discopy.tensor:Tensor.swap": 0.95,
    "discopy.tensor:Tensor.cups": 0.95,
    "discopy.tensor:Tensor.caps": 0.95,
    "discopy.tensor:Tensor.id": 0.95,
    "discopy.tensor:Tensor.__init__": 0.95,
}
MIN_EVALS = {
    "quick": {"then-is-matrix-product": 2200, "tensor-is-kronecker": 2200,
              "dagger-is-conjugate-transpose": 1100, "id-is-identity": 3300,
              "swap-is-block-permutation": 1100,
              "cups-caps-defining-tensor": 6500, "snake-equations": 3400,
              "interchange-law": 1100, "swap-naturality": 1100,
              "result-dom-cod": 25000, "constructor-keeps-array": 2200,
              "pairs_visited_exhaustively": 441},
    "thorough": {"then-is-matrix-product": 25000, "tensor-is-kronecker": 25000,
                 "dagger-is-conjugate-transpose": 12500,
                 "swap-is-block-permutation": 12500, "snake-equations": 38000,
                 "cups-caps-defining-tensor": 75000,
                 "interchange-law": 12500, "swap-naturality": 12500,
                 "result-dom-cod": 290000,
                 "pairs_visited_exhaustively": 7225}}
ASSUMPTIONS = [
    "mat(t) is the C-order reshape of t.array to (prod dom, prod cod)",
    "integer-valued, Gaussian-integer and one-hot data are compared exactly, "
    "generic data with allclose(rtol=1e-9, atol=1e-9)",
    "matrices are kept <= 512 x 512 (snake equations: prod(X) <= 32)",
    "composing mismatched tensors / non-tensors is only counted (raised or "
    "not), it is not part of the statement"]
TECHNIQUE = ("runtime monitoring: reference-model monitor, numpy matrix "
             "algebra on harness-built matrices vs. discopy.tensor.Tensor")

KINDS = ["complex", "complex", "real", "int", "gauss", "gauss", "onehot"]
EXACT = {"int", "gauss", "onehot"}
_T = {}


def setup(ctx):
    from discopy import tensor
    _T["Tensor"], _T["Dim"] = tensor.Tensor, tensor.Dim
    for length in (2, 3):
        tuples = [t for n in range(length + 1)
                  for t in itertools.product((1, 2, 3, 4), repeat=n)]
        _T["pairs", length] = [(a, b) for a in tuples for b in tuples]
        _T["tuples", length] = tuples


def strip(dims):
    return tuple(x for x in dims if x != 1)


def rand_tuple(rng, maxlen, cap):
    """ Random tuple over {1,2,3,4}, product <= cap. """
    for _ in range(20):
        dims = tuple(rng.choice((1, 2, 2, 3, 3, 4))
                     for _ in range(rng.randint(0, maxlen)))
        if ke.prod(dims) <= cap:
            return dims
    return ()


def rand_matrix(rng, rows, cols, kind):
    gen = numpy.random.default_rng(rng.getrandbits(64))
    if kind == "complex":
        return gen.uniform(-1, 1, (rows, cols))\
            + 1j * gen.uniform(-1, 1, (rows, cols))
    if kind == "real":
        return gen.uniform(-2, 2, (rows, cols))
    if kind == "int":
        return gen.integers(-3, 4, (rows, cols))
    if kind == "gauss":
        return gen.integers(-3, 4, (rows, cols))\
            + 1j * gen.integers(-3, 4, (rows, cols))
    matrix = numpy.zeros((rows, cols), dtype=int)
    matrix[gen.integers(rows), gen.integers(cols)] = 1
    return matrix


class Case:
    """ Builds tensors next to the harness' own matrices and judges results. """
    def __init__(self, rng, ctx, kind):
        self.rng, self.ctx, self.kind = rng, ctx, kind
        self.exact = kind in EXACT

    def dim(self, dims):
        return _T["Dim"](*dims)

    def make(self, dom, cod):
        """ (Tensor, harness matrix) of type dom -> cod. """
        matrix = rand_matrix(self.rng, ke.prod(dom), ke.prod(cod), self.kind)
        style = self.rng.randrange(3)
        if style == 0:
            data = matrix.flatten().tolist()
        elif style == 1:
            data = matrix.reshape(strip(dom) + strip(cod) or (1, ))
        else:
            data = matrix.reshape(strip(dom) + strip(cod) or (1, )).tolist()
        value = _T["Tensor"](self.dim(dom), self.dim(cod), data)
        self.judge("constructor-keeps-array", value, matrix, dom, cod,
                   law="Tensor(dom, cod, data)")
        return value, matrix

    def judge(self, monitor, value, expected, dom, cod, **witness):
        """ value: discopy Tensor; expected: matrix; dom/cod: tuples. """
        ctx = self.ctx
        try:
            got_dom, got_cod = ke.dims_of(value.dom), ke.dims_of(value.cod)
            shape = tuple(numpy.shape(value.array))
        except Exception as err:
            ctx.fail("result-dom-cod", kind=self.kind, where=monitor,
                     problem="unreadable result: {!r}".format(err), **witness)
            return False
        typed = ctx.expect(
            "result-dom-cod",
            got_dom == strip(dom) and got_cod == strip(cod)
            and shape == (strip(dom) + strip(cod) or (1, ))
            and type(value).__name__ == "Tensor",
            where=monitor, kind=self.kind, expected_dom=list(strip(dom)),
            expected_cod=list(strip(cod)), dom=repr(value.dom),
            cod=repr(value.cod), array_shape=list(shape),
            cls=type(value).__name__, **witness)
        if not typed:
            return False
        actual = ke.flat(value)
        if self.exact:
            same = actual.shape == expected.shape\
                and numpy.array_equal(actual, expected)
        else:
            same = actual.shape == expected.shape and numpy.allclose(
                actual, expected, rtol=1e-9, atol=1e-9)
        return ctx.expect(
            monitor, same, kind=self.kind, exact=self.exact,
            dom=list(dom), cod=list(cod),
            max_abs_diff=lambda: float(numpy.max(numpy.abs(
                actual - expected))) if actual.shape == expected.shape
            and actual.size else None,
            actual=lambda: numpy.round(actual, 6).tolist()
            if actual.size <= 36 else "<{} entries>".format(actual.size),
            expected=lambda: numpy.round(expected, 6).tolist()
            if expected.size <= 36 else "<{} entries>".format(expected.size),
            **witness)


def cups_matrix(dims):
    """ cups(X, X.r): (prod X)^2 x 1, one at |i>|reversed i>. """
    dims = tuple(dims)
    size = ke.prod(dims)
    matrix = numpy.zeros((size * size, 1), dtype=int)
    shape = dims + dims[::-1]
    for index in numpy.ndindex(*dims):
        position = 0
        for i, n in zip(index + index[::-1], shape):
            position = position * n + i
        matrix[position, 0] = 1
    return matrix


def run_case(rng, ctx):
    Tensor = _T["Tensor"]
    maxlen = 2 if ctx.tier == "quick" else 3
    pairs = _T["pairs", maxlen]
    number = ctx.index * ctx.nshards + ctx.shard
    dom, cod = pairs[number % len(pairs)]
    if number < len(pairs):
        ctx.count("pairs_visited_exhaustively")
    kind = KINDS[rng.randrange(len(KINDS))]
    case = Case(rng, ctx, kind)
    a, b = dom, cod
    pa, pb = ke.prod(a), ke.prod(b)
    c = rand_tuple(rng, maxlen, 64)
    d = rand_tuple(rng, maxlen, max(1, 512 // max(pa, pb)))
    e = rand_tuple(rng, maxlen, max(1, 512 // max(pa, pb)))
    f_ = rand_tuple(rng, maxlen, max(1, 512 // ke.prod(c)))
    shapes = dict(A=list(a), B=list(b), C=list(c), D=list(d), E=list(e),
                  F=list(f_))

    f, mf = case.make(a, b)
    g, mg = case.make(b, c)
    h, mh = case.make(d, e)
    k, mk = case.make(e, f_)
    if mf.size >= 2:
        ctx.mark(repr((a, b, c, d, e, f_, kind)))
    if ctx.index < 3:
        ctx.sample(shapes=shapes, kind=kind, f=repr(f)[:200])

    # -- dagger ---------------------------------------------------------------
    fd = f.dagger() if rng.random() < .7 else f[::-1]
    case.judge("dagger-is-conjugate-transpose", fd, mf.conj().T, b, a,
               law="f.dagger()", **shapes)
    case.judge("dagger-is-conjugate-transpose", fd.dagger(), mf, a, b,
               law="f.dagger().dagger()", **shapes)

    # -- identities -------------------------------------------------------------
    id_a, id_b = Tensor.id(case.dim(a)), Tensor.id(case.dim(b))
    exact, case.exact = case.exact, True
    case.judge("id-is-identity", id_a, numpy.eye(pa), a, a, law="id(A)",
               **shapes)
    case.judge("id-is-identity", Tensor.id(), numpy.eye(1), (), (),
               law="id()", **shapes)
    case.exact = exact
    case.judge("id-is-identity", id_a >> f, mf, a, b, law="id(A) >> f",
               **shapes)
    case.judge("id-is-identity", f >> id_b, mf, a, b, law="f >> id(B)",
               **shapes)
    case.judge("id-is-identity", f @ Tensor.id(case.dim((1, ))), mf, a, b,
               law="f @ id(Dim(1))", **shapes)
    case.judge("id-is-identity", Tensor.id() @ f, mf, a, b,
               law="id(Dim(1)) @ f", **shapes)

    # -- composition ----------------------------------------------------------------
    fg = f >> g
    case.judge("then-is-matrix-product", fg, mf @ mg, a, c, law="f >> g",
               **shapes)
    case.judge("then-is-matrix-product", h.then(k), mh @ mk, d, f_,
               law="h.then(k)", **shapes)
    case.judge("then-is-matrix-product", f.then(g, g.dagger()),
               mf @ mg @ mg.conj().T, a, b, law="f.then(g, g.dagger())",
               **shapes)
    case.judge("then-is-matrix-product", f.then(), mf, a, b, law="f.then()",
               **shapes)

    # -- tensor -------------------------------------------------------------------------
    fh = f @ h
    case.judge("tensor-is-kronecker", fh, numpy.kron(mf, mh), a + d, b + e,
               law="f @ h", **shapes)
    hf = h @ f
    case.judge("tensor-is-kronecker", hf, numpy.kron(mh, mf), d + a, e + b,
               law="h @ f", **shapes)
    if pa * ke.prod(d) * ke.prod(e) <= 512\
            and pb * ke.prod(e) * ke.prod(f_) <= 512:
        case.judge("tensor-is-kronecker", f.tensor(h, k),
                   numpy.kron(numpy.kron(mf, mh), mk),
                   a + d + e, b + e + f_, law="f.tensor(h, k)", **shapes)
    else:
        case.judge("tensor-is-kronecker", h.tensor(), mh, d, e,
                   law="h.tensor()", **shapes)

    # -- interchange law -----------------------------------------------------------------
    gk = g @ k
    case.judge("tensor-is-kronecker", gk, numpy.kron(mg, mk), b + e, c + f_,
               law="g @ k", **shapes)
    hk = h >> k
    expected = numpy.kron(mf @ mg, mh @ mk)
    case.judge("interchange-law", fh >> gk, expected, a + d, c + f_,
               law="(f @ h) >> (g @ k)", **shapes)
    case.judge("interchange-law", fg @ hk, expected, a + d, c + f_,
               law="(f >> g) @ (h >> k)", **shapes)

    # -- swaps -----------------------------------------------------------------------------
    exact, case.exact = case.exact, True
    swap_ad = Tensor.swap(case.dim(a), case.dim(d))
    perm_ad = ke.block_swap_matrix(strip(a), strip(d))
    case.judge("swap-is-block-permutation", swap_ad, perm_ad, a + d, d + a,
               law="swap(A, D)", **shapes)
    swap_be = Tensor.swap(case.dim(b), case.dim(e))
    perm_be = ke.block_swap_matrix(strip(b), strip(e))
    case.judge("swap-is-block-permutation", swap_be, perm_be, b + e, e + b,
               law="swap(B, E)", **shapes)
    case.exact = exact
    natural = numpy.kron(mf, mh) @ perm_be
    case.judge("swap-naturality", fh >> swap_be, natural, a + d, e + b,
               law="(f @ h) >> swap(B, E)", **shapes)
    case.judge("swap-naturality", swap_ad >> hf, natural, a + d, e + b,
               law="swap(A, D) >> (h @ f)", **shapes)

    # -- cups, caps, snakes --------------------------------------------------------------
    exact, case.exact = case.exact, True
    limit = 16 if ctx.tier == "quick" else 32
    for x in (a, b, d + e):
        if ke.prod(x) > limit or len(strip(x)) > 4:
            x = rand_tuple(rng, maxlen, limit)
        xr = x[::-1]
        X, Xr = case.dim(x), case.dim(xr)
        px = ke.prod(x)
        # the adjoints the library computes are the reversed dimensions the
        # harness computes (both snakes below are formed on the library's own)
        got_l, got_r = X.l, X.r
        ctx.expect("snake-equations",
                   ke.dims_of(got_l) == ke.dims_of(Xr) == ke.dims_of(got_r)
                   and got_l == Xr and got_r == Xr and got_l.r == X
                   and got_r.l == X, law="X.l and X.r are X reversed; X.l.r == X == X.r.l",
                   X=list(x), X_l=lambda: repr(got_l), X_r=lambda: repr(got_r))
        ctx.count("adjoint_dims_compared")
        if len(set(strip(x))) > 1 and strip(x) != strip(xr):
            ctx.count("adjoint_dims_compared_non_palindromic")
        cups, caps = Tensor.cups(X, got_r), Tensor.caps(got_r, X)
        cm = cups_matrix(strip(x))
        case.judge("cups-caps-defining-tensor", cups, cm, x + xr, (),
                   law="cups(X, X.r)", X=list(x))
        case.judge("cups-caps-defining-tensor", caps,
                   cups_matrix(strip(xr)).T, (), xr + x, law="caps(X.r, X)",
                   X=list(x))
        case.judge("cups-caps-defining-tensor", cups.dagger(), cm.T, (),
                   x + xr, law="cups(X, X.r).dagger() vs caps(X, X.r)",
                   X=list(x))
        case.judge("cups-caps-defining-tensor", Tensor.caps(X, Xr), cm.T,
                   (), x + xr, law="caps(X, X.l)", X=list(x))
        idx = Tensor.id(X)
        right_snake = idx @ caps >> cups @ idx
        case.judge("snake-equations", right_snake, numpy.eye(px), x, x,
                   law="id @ caps(X.r, X) >> cups(X, X.r) @ id", X=list(x))
        left_snake = Tensor.caps(X, got_l) @ idx >> idx @ Tensor.cups(got_l, X)
        case.judge("snake-equations", left_snake, numpy.eye(px), x, x,
                   law="caps(X, X.l) @ id >> id @ cups(X.l, X)", X=list(x))
    case.exact = exact
    # transposing f with the compact structure gives the matrix transpose
    if pa <= limit and pb <= limit and pa * pa * pb <= 4096\
            and pb * pb * pa <= 4096:
        A, Ar, B, Br = (case.dim(a), case.dim(a[::-1]), case.dim(b),
                        case.dim(b[::-1]))
        bent = Tensor.caps(Ar, A) @ Tensor.id(Br)\
            >> Tensor.id(Ar) @ f @ Tensor.id(Br)\
            >> Tensor.id(Ar) @ Tensor.cups(B, Br)
        # index reversal on both sides: rows ~ reversed B, columns ~ reversed A
        full = mf.reshape(strip(a) + strip(b) or (1, ))
        axes = list(range(full.ndim))[::-1] if strip(a) + strip(b) else [0]
        expected = numpy.transpose(full, axes).reshape(pb, pa)
        case.judge("snake-equations", bent, expected, b[::-1], a[::-1],
                   law="caps @ id >> id @ f @ id >> id @ cups = transpose",
                   **shapes)

    # -- requests outside the statement: counted only ----------------------------------
    for label, request in [
            ("then-mismatch", lambda: f >> Tensor.id(case.dim(b + (2, )))),
            ("then-non-tensor", lambda: f >> "g"),
            ("tensor-non-tensor", lambda: f @ 3)]:
        try:
            request()
            ctx.count("hostile_" + label + "_returned")
        except Exception as err:
            ctx.count("hostile_{}_raised_{}".format(label, type(err).__name__))
    # -- tensors are values: no operation may have changed its operands -----------------
    for name, value, matrix, x, y in (("f", f, mf, a, b), ("g", g, mg, b, c),
                                     ("h", h, mh, d, e), ("k", k, mk, e, f_)):
        case.judge("operands-unchanged", value, matrix, x, y,
                   law=name + " after all the operations above", **shapes)
