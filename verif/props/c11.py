"""
C11 - pure circuits evaluate to the unitary they describe.

Monitors (all comparisons numpy allclose rtol=atol=1e-9)
  gate-matches-tket               eval of a named gate / rotation == tket's
                                  matrix of the same-named op (angle 2*phase)
  controlled-is-diag-I-U          eval(Controlled(g)) == diag(I, U_g), U_g from tket
  circuit-matches-ordered-product eval(circuit) == product of I(x)U(x)I with the
                                  *oracle's* gate matrices
  circuit-is-unitary              U U^H = U^H U = I for scalar/ket/bra-free circuits
  ket-bra-basis-vector            eval(Ket(bits)) / eval(Bra(bits)) one-hot, big-endian
  dagger-is-conjugate-transpose   eval(c.dagger()) == conj-transpose (numpy) of
                                  discopy's own eval(c)
  rewire-acts-on-a-b              eval(rewire(op, a, b)) == Circuit(n).G(a, b).get_unitary()
  evaluation-returns              eval / dagger / rewire raised on an input
                                  inside the quantifier

A mismatch is re-examined against the three mechanisms reconnaissance saw
(Y transposed, Ry transposed, Controlled(g') ignoring the dagger flag of g'):
the oracle product is recomputed with exactly those substitutions and the
witness carries ``mechanism`` only if the observed matrix is *fully* explained
by them; otherwise ``mechanism`` is None and the violation is unlisted.
"""
import cmath
import itertools
import math

import numpy

from verif.instrument import safe_repr
from verif.models import tket_oracle as tk

ID = "C11"
RULE = ("case kinds by index mod 16: (0) gate sweep = every named gate and "
        "rotation at 26 phases (14 fixed incl. 0, +-1/4, +-1/2, +-1, 2 and "
        "irrational ones, 12 seeded draws from [-2,2]) vs tket, Controlled(g) "
        "for every one-qubit g and g.dagger(), scalar/sqrt, dagger law per "
        "gate; (1, 9) rewire of a random two-qubit op (named, rotation, "
        "Controlled(g), daggers, 2-4 gate sub-circuit) onto every ordered pair "
        "of n qubits, n cycling 2..5, with and without dom=; (8) Ket/Bra for "
        "all bitstrings of length <=3 and tensors of them; (else) a random "
        "pure circuit on 0-4 qubits, depth <=10, over named gates, rotations, "
        "Controlled(g), daggers of each kind, scalar/sqrt and (a third of the "
        "cases) kets/bras, built layer by layer or as a tensor of two "
        "circuits.  Non-trivial = a circuit with >=3 boxes or a sweep; "
        "distinct by the written-out spec."
        "  Also: every fourth evaluation in a batch next to a mixed and a pure circuit; random unitary QuantumGates of 1-2 qubits.")
SIZES = {"quick": (16, 160), "thorough": (16, 4000)}
TIMEOUT = {"quick": 600, "thorough": 5400}
COVER = {
    "discopy.quantum.gates:QuantumGate.array": 1.0,
    "discopy.quantum.gates:Rx.array": 1.0,
    "discopy.quantum.gates:Ry.array": 1.0,
    "discopy.quantum.gates:Rz.array": 1.0,
    "discopy.quantum.gates:CU1.array": 1.0,
    "discopy.quantum.gates:CRz.array": 1.0,
    "discopy.quantum.gates:CRx.array": 1.0,
    "discopy.quantum.gates:Scalar.array": 1.0,
    "discopy.quantum.gates:Sqrt.array": 1.0,
    "discopy.quantum.gates:Ket.array": 1.0,
    "discopy.quantum.gates:QuantumGate.dagger": 1.0,
    "discopy.quantum.gates:Rotation.dagger": 1.0,
    "discopy.quantum.gates:Controlled.dagger": 1.0,
    "discopy.quantum.gates:Controlled.__init__": 0.8,
    "discopy.quantum.gates:Ket.dagger": 1.0,
    "discopy.quantum.gates:Bra.dagger": 1.0,
    "discopy.quantum.gates:Scalar.dagger": 1.0,
    "discopy.quantum.gates:rewire": 0.95,
    "discopy.quantum.circuit:Circuit.eval": 0.3,
    "discopy.tensor:Functor.__call__": 0.6,
}
MIN_EVALS = {
    "quick": {"gate-matches-tket": 25000, "controlled-is-diag-I-U": 4500,
              "circuit-matches-ordered-product": 1800,
              "circuit-is-unitary": 3000, "ket-bra-basis-vector": 4500,
              "dagger-is-conjugate-transpose": 35000,
              "rewire-acts-on-a-b": 3000},
    "thorough": {"gate-matches-tket": 100000,
                 "circuit-matches-ordered-product": 30000,
                 "dagger-is-conjugate-transpose": 100000,
                 "rewire-acts-on-a-b": 60000}}
ASSUMPTIONS = [
    "oracle = pytket get_unitary (ILO-BE), tket angle = 2 * discopy phase; "
    "controlled(U) = diag(I, U) built by numpy and cross-checked in setup() "
    "against tket's own CX/CY/CZ/CH/CS/CRx/CRy/CRz",
    "Controlled is only applied to one-qubit gates (Controlled of a two-qubit "
    "gate raises ValueError in numpy broadcasting; not generated)",
    "decided at finitely many real phases (fixed list incl. irrational values "
    "plus seeded uniform draws from [-2, 2]); sqrt() only of numbers in the "
    "open right half-plane (principal root)",
    "rewire with cod != dom (outside the statement: 'two-qubit gate') is "
    "exercised for coverage only: NotImplementedError/ValueError are counted "
    "as refusals, a returned value is compared with 'inputs a, b feed the op, "
    "outputs stay at min(a, b)'"]
TECHNIQUE = "runtime monitoring: reference-model monitors (tket matrices, " \
            "Kronecker product evaluator) over seeded workloads"

TOL = 1e-9
ONE_QUBIT_NAMED = ("H", "S", "T", "X", "Y", "Z")
TWO_QUBIT_NAMED = ("CX", "CZ", "SWAP")
ONE_QUBIT_ROT = ("Rx", "Ry", "Rz")
TWO_QUBIT_ROT = ("CRz", "CRx", "CU1")
#: gates whose .dagger() is the same array plus a flag (not self-adjoint)
FLAG_KINDS = ("S", "T", "Y")
M_Y, M_RY = "Y-transposed", "Ry-transposed"
M_CTRL = "controlled-dagger-of-flag-daggered-gate"
FIXED_PHASES = (0, 0.25, -0.25, 0.5, -0.5, 1, -1, 2, 0.125, 1 / 3,
                math.sqrt(2) / 2, -math.pi / 4, 1 / math.e, -math.sqrt(3))

_G = None          # discopy.quantum.gates, set in setup()
_Id = None
_REPORTED = set()  # (monitor, mechanism, jointly_with) already recorded verbatim


def report(ctx, monitor, mechanism, jointly_with, **witness):
    """
    Records a failure.  A failure the harness has *proved* to be an instance
    of an emulated mechanism is recorded verbatim once per worker and
    (monitor, mechanism, accomplices); repeats are evaluated and counted under
    "repeat:<monitor>:<mechanism>" (the runner keeps at most 400 verbatim
    records per shard).  Unexplained failures are always recorded.
    """
    key = (monitor, mechanism, tuple(jointly_with))
    if mechanism is not None and key in _REPORTED:
        ctx.ok(monitor)
        ctx.count("repeat:{}:{}".format(monitor, mechanism))
        return
    _REPORTED.add(key)
    ctx.fail(monitor, mechanism=mechanism, jointly_with=list(jointly_with),
             **witness)


def setup(ctx):
    """ Imports, and self-checks of the oracle against tket itself. """
    global _G, _Id
    from discopy.quantum import gates
    from discopy.quantum.circuit import Id
    _G, _Id = gates, Id
    for target, name in sorted(tk.TKET_CONTROLLED.items()):
        for phase in ((0.3, -1.7) if target in tk.PARAMETRISED else (None,)):
            if not tk.close(tk.controlled(tk.unitary(target, phase)),
                            tk.unitary(name, phase)):
                raise RuntimeError("oracle self-check: controlled " + target)
    from pytket import Circuit
    for bits in itertools.product((0, 1), repeat=3):
        circuit = Circuit(3)
        for i, bit in enumerate(bits):
            if bit:
                circuit.X(i)
        if not tk.close(circuit.get_statevector().reshape(8, 1), tk.ket(bits)):
            raise RuntimeError("oracle self-check: ket {}".format(bits))
    if not tk.close(tk.placed_unitary(tk.unitary("CX"), 3, 2, 0),
                    tk.placed("CX", 3, (2, 0))):
        raise RuntimeError("oracle self-check: Unitary2qBox placement")


# --------------------------------------------------------------------------
# specs: the harness's own description of a box; discopy value and oracle
# matrix are both derived from it
# --------------------------------------------------------------------------
def spec(kind, phase=None, dagger=False, controlled=False, inner_dagger=False,
         bits=None, value=None, offset=0):
    return {"kind": kind, "phase": phase, "dagger": dagger,
            "controlled": controlled, "inner_dagger": inner_dagger,
            "bits": bits, "value": value, "offset": offset}


def arity(s):
    """ (n_in, n_out) of a spec. """
    kind = s["kind"]
    if kind in ("scalar", "sqrt"):
        return 0, 0
    if kind in ("Ket", "Bra"):
        n = len(s["bits"])
        is_ket = (kind == "Ket") != s["dagger"]
        return (0, n) if is_ket else (n, 0)
    if kind == "custom":
        return s["bits"][0], s["bits"][0]
    n = tk.N_QUBITS[kind] + (1 if s["controlled"] else 0)
    return n, n


def build(s):
    """ The discopy box of a spec (library calls: constructors, dagger). """
    g, kind = _G, s["kind"]
    if kind == "scalar":
        box = g.scalar(s["value"])
    elif kind == "sqrt":
        box = g.sqrt(s["value"])
    elif kind == "Ket":
        box = g.Ket(*s["bits"])
    elif kind == "Bra":
        box = g.Bra(*s["bits"])
    elif kind == "custom":
        # a gate of the user's own: only its array says what it is
        box = g.QuantumGate("U", s["bits"][0], list(s["value"]))
    elif kind in tk.NAMED:
        box = getattr(g, kind)
    else:
        box = getattr(g, kind)(s["phase"])
    if s["controlled"]:
        if s["inner_dagger"]:
            box = box.dagger()
        box = g.Controlled(box)
    if s["dagger"]:
        box = box.dagger()
    return box


def describe(s):
    text = s["kind"]
    if s["phase"] is not None:
        text += "({!r})".format(s["phase"])
    if s["bits"] is not None:
        text += "({})".format(", ".join(map(str, s["bits"])))
    if s["value"] is not None and s["kind"] != "custom":
        text += "({!r})".format(s["value"])
    if s["controlled"]:
        text = "Controlled({}{})".format(
            text, ".dagger()" if s["inner_dagger"] else "")
    if s["dagger"]:
        text += ".dagger()"
    return text


def describe_all(steps):
    return ["{}@{}".format(describe(s), s["offset"]) for s in steps]


def oracle_matrix(s, mech=frozenset()):
    """
    [output, input] matrix of a spec from tket's matrices.  `mech` = set of
    known-defect mechanisms to *emulate* (used only to explain a mismatch).
    """
    kind = s["kind"]
    if kind == "scalar":
        matrix = numpy.array([[complex(s["value"])]])
    elif kind == "sqrt":
        matrix = numpy.array([[cmath.sqrt(s["value"])]])
    elif kind == "Ket":
        matrix = tk.ket(s["bits"])
    elif kind == "Bra":
        matrix = tk.bra(s["bits"])
    elif kind == "custom":
        n = s["bits"][0]
        matrix = tk.from_discopy(numpy.array(s["value"]), n, n)
    else:
        matrix = tk.unitary(kind, s["phase"])
        if (kind == "Y" and M_Y in mech) or (kind == "Ry" and M_RY in mech):
            matrix = matrix.T
    if s["controlled"]:
        net_dagger = s["inner_dagger"] != s["dagger"]
        if net_dagger and not (kind in FLAG_KINDS and M_CTRL in mech):
            matrix = tk.adjoint(matrix)
        return tk.controlled(matrix)
    return tk.adjoint(matrix) if s["dagger"] else matrix


def applicable(steps):
    """ Mechanisms whose trigger occurs in the steps (or in their daggers). """
    found = []
    for s in steps:
        if s["kind"] == "Y" and M_Y not in found:
            found.append(M_Y)
        if s["kind"] == "Ry" and M_RY not in found:
            found.append(M_RY)
        if s["controlled"] and s["kind"] in FLAG_KINDS and M_CTRL not in found:
            found.append(M_CTRL)
    return sorted(found)


def oracle_product(n_in, steps, mech=frozenset()):
    return tk.ordered_product(
        n_in, [(oracle_matrix(s, mech), s["offset"]) for s in steps])[0]


def dagger_steps(steps):
    """ The spec of the dagger: reversed order, every dagger flag toggled. """
    return [dict(s, dagger=not s["dagger"]) for s in reversed(steps)]


def subsets(names):
    for size in range(1, len(names) + 1):
        for subset in itertools.combinations(names, size):
            yield frozenset(subset)


# --------------------------------------------------------------------------
# observation helpers (every library call is wrapped)
# --------------------------------------------------------------------------
_BATCH = [0]


def observe(ctx, what, circuit, steps=None):
    """ eval() as an [output, input] matrix, or None (violation recorded). """
    _BATCH[0] += 1
    try:
        if _BATCH[0] % 4 == 3:
            # evaluated in a batch, next to a mixed and to another pure circuit:
            # the pure circuit still evaluates to its own matrix
            from discopy.quantum import Measure, Ket, Discard, H
            others = [(Measure(),), (Ket(0) >> Discard(), H), (H,)][_BATCH[0] // 4 % 3]
            results = circuit.eval(*others)
            ctx.count("evaluated_in_a_batch")
            if len(results) != 1 + len(others):
                raise ValueError("batch of {} circuits gave {} results".format(
                    1 + len(others), len(results)))
            tensor = results[0]
        else:
            tensor = circuit.eval()
        n_in, n_out = len(circuit.dom), len(circuit.cod)
        dims_ok = tuple(tensor.dom) == n_in * (2, )\
            and tuple(tensor.cod) == n_out * (2, )
        matrix = tk.from_discopy(tensor.array, n_in, n_out)
    except Exception as err:
        ctx.fail("evaluation-returns", operation="eval of " + what,
                 exception=type(err).__name__, message=str(err)[:300],
                 circuit=safe_repr(circuit, 600), mechanism=None,
                 spec=describe_all(steps) if steps else None)
        return None
    ctx.ok("evaluation-returns")
    if not dims_ok:
        ctx.fail("evaluation-returns", operation="dims of eval of " + what,
                 dom=repr(tensor.dom), cod=repr(tensor.cod), mechanism=None,
                 circuit=safe_repr(circuit, 600))
        return None
    return matrix


def judge(ctx, monitor, observed, expected_of, steps, **witness):
    """
    `expected_of(mech)` -> oracle matrix under the emulated mechanisms.
    One failure record per mechanism needed to explain the mismatch.
    """
    expected = expected_of(frozenset())
    if tk.close(observed, expected, TOL):
        ctx.ok(monitor)
        return True
    base = dict(witness, spec=describe_all(steps),
                kinds=sorted({s["kind"] for s in steps}),
                observed=numpy.round(observed, 6).tolist()
                if observed.size <= 16 else "<{}x{}>".format(*observed.shape),
                expected=numpy.round(expected, 6).tolist()
                if expected.size <= 16 else "<{}x{}>".format(*expected.shape))
    for mech in subsets(applicable(steps)):
        if tk.close(observed, expected_of(mech), TOL):
            for name in sorted(mech):
                report(ctx, monitor, name, sorted(mech - {name}), **base)
            return False
    report(ctx, monitor, None, [], **base)
    return False


def library(ctx, what, fn, steps=None, allowed=()):
    """ A library call that must return; allowed exceptions are refusals. """
    try:
        return fn()
    except allowed as err:
        ctx.refuse("{}:{}".format(what, type(err).__name__))
        return None
    except Exception as err:
        ctx.fail("evaluation-returns", operation=what,
                 exception=type(err).__name__, message=str(err)[:300],
                 mechanism=None, spec=describe_all(steps) if steps else None)
        return None


def check_dagger_law(ctx, circuit, steps, n_in, observed):
    """ eval(c.dagger()) vs numpy's conjugate transpose of eval(c). """
    dag = library(ctx, "dagger", circuit.dagger, steps)
    if dag is None:
        return
    observed_dag = observe(ctx, "dagger", dag, steps)
    if observed_dag is None:
        return
    if tk.close(observed_dag, tk.adjoint(observed), TOL):
        ctx.ok("dagger-is-conjugate-transpose")
        return
    # explained only if BOTH evaluations are reproduced by the oracle under
    # the same emulated mechanisms, the controlled-dagger one among them
    n_out = n_in + sum(arity(s)[1] - arity(s)[0] for s in steps)
    back = dagger_steps(steps)
    witness = dict(
        spec=describe_all(steps), kinds=sorted({s["kind"] for s in steps}),
        circuit=safe_repr(circuit, 600), dagger=safe_repr(dag, 600),
        eval_of_dagger=numpy.round(observed_dag, 6).tolist()
        if observed_dag.size <= 16 else "<large>",
        adjoint_of_eval=numpy.round(tk.adjoint(observed), 6).tolist()
        if observed.size <= 16 else "<large>")
    for mech in subsets(applicable(steps)):
        if M_CTRL in mech\
                and tk.close(observed, oracle_product(n_in, steps, mech), TOL)\
                and tk.close(observed_dag,
                             oracle_product(n_out, back, mech), TOL):
            report(ctx, "dagger-is-conjugate-transpose", M_CTRL,
                   sorted(mech - {M_CTRL}), **witness)
            return
    report(ctx, "dagger-is-conjugate-transpose", None, [], **witness)


# --------------------------------------------------------------------------
# case kinds
# --------------------------------------------------------------------------
def rand_phase(rng):
    r = rng.random()
    if r < .3:
        return rng.choice(FIXED_PHASES)
    if r < .4:
        return rng.choice([0, 1, -1, 2, -2])       # Python ints
    return rng.uniform(-2, 2)


def rand_scalar(rng):
    if rng.random() < .3:
        return round(rng.uniform(-2, 2), 3) or 1.5
    return complex(round(rng.uniform(-1.5, 1.5), 3),
                   round(rng.uniform(-1.5, 1.5), 3))


def single(ctx, monitor, s, check_dagger=True):
    """ One box on its own against the oracle (+ its dagger law). """
    box = library(ctx, "construct " + describe(s), lambda: build(s), [s])
    if box is None:
        return
    observed = observe(ctx, describe(s), box, [s])
    if observed is None:
        return
    n_in = arity(s)[0]
    judge(ctx, monitor, observed,
          lambda mech: oracle_product(n_in, [s], mech), [s],
          circuit=safe_repr(box, 300))
    if check_dagger:
        check_dagger_law(ctx, box, [s], n_in, observed)


def gate_sweep(rng, ctx):
    phases = list(FIXED_PHASES) + [rng.uniform(-2, 2) for _ in range(12)]
    for kind in tk.NAMED:
        single(ctx, "gate-matches-tket", spec(kind))
        single(ctx, "gate-matches-tket", spec(kind, dagger=True))
    for kind in tk.ROTATIONS:
        for phase in phases:
            single(ctx, "gate-matches-tket", spec(kind, phase))
        single(ctx, "gate-matches-tket",
               spec(kind, rng.uniform(-2, 2), dagger=True))
    for kind in ONE_QUBIT_NAMED:
        for inner in (False, True):
            single(ctx, "controlled-is-diag-I-U",
                   spec(kind, controlled=True, inner_dagger=inner))
    for kind in ONE_QUBIT_ROT:
        for phase in rng.sample(phases, 8):
            single(ctx, "controlled-is-diag-I-U",
                   spec(kind, phase, controlled=True,
                        inner_dagger=rng.random() < .3))
    for _ in range(4):
        single(ctx, "gate-matches-tket", spec("scalar", value=rand_scalar(rng)))
        single(ctx, "gate-matches-tket", spec("sqrt", value=rand_sqrt(rng)))
    ctx.mark("sweep|" + repr(phases[len(FIXED_PHASES):]))
    if ctx.shard % 4 == 0:
        ctx.sample(kind="gate sweep", phases=phases)


def rand_sqrt(rng):
    if rng.random() < .6:
        return rng.choice([2, 0.5, 3, 1.44, 2.0])
    return complex(round(rng.uniform(.1, 2), 3), round(rng.uniform(-2, 2), 3))


def ket_bra_sweep(rng, ctx):
    for n in range(4):
        for bits in itertools.product((0, 1), repeat=n):
            for kind in ("Ket", "Bra"):
                single(ctx, "ket-bra-basis-vector", spec(kind, bits=bits))
    # tensor of two kets is the ket of the concatenation; amplitude <b|U|a>
    for _ in range(6):
        left = tuple(rng.randint(0, 1) for _ in range(rng.randint(0, 2)))
        right = tuple(rng.randint(0, 1) for _ in range(rng.randint(1, 2)))
        kind = rng.choice(["Ket", "Bra"])
        both = library(ctx, "tensor of " + kind,
                       lambda: getattr(_G, kind)(*left) @ getattr(_G, kind)(*right))
        if both is None:
            continue
        observed = observe(ctx, kind + " tensor", both)
        if observed is None:
            continue
        s = spec(kind, bits=left + right)
        judge(ctx, "ket-bra-basis-vector", observed,
              lambda mech: oracle_matrix(s), [s], circuit=safe_repr(both, 300))
    ctx.mark("ketbra|" + repr(ctx.index))


def rand_two_qubit_op(rng):
    """ Steps (on two wires) of a two-qubit op for rewire. """
    r = rng.random()
    if r < .25:
        return [spec(rng.choice(TWO_QUBIT_NAMED))]
    if r < .55:
        return [spec(rng.choice(TWO_QUBIT_ROT), rand_phase(rng),
                     dagger=rng.random() < .2)]
    if r < .8:
        kind = rng.choice(ONE_QUBIT_NAMED + ONE_QUBIT_ROT)
        phase = rand_phase(rng) if kind in ONE_QUBIT_ROT else None
        return [spec(kind, phase, controlled=True,
                     inner_dagger=rng.random() < .2,
                     dagger=rng.random() < .2)]
    steps = []
    for _ in range(rng.randint(2, 4)):
        steps.append(rand_gate(rng, 2, scalars=False))
    return steps


def compose(ctx, n_in, steps):
    """ The discopy circuit of a list of steps, layer by layer. """
    def make():
        circuit, width = _Id(n_in), n_in
        for s in steps:
            box = build(s)
            k_in, k_out = arity(s)
            circuit = circuit >> _Id(s["offset"]) @ box\
                @ _Id(width - s["offset"] - k_in)
            width += k_out - k_in
        return circuit
    return library(ctx, "compose", make, steps)


def rewire_sweep(rng, ctx):
    n = 2 + (ctx.index // 8 + ctx.shard) % 4          # 2..5, all per shard
    steps = rand_two_qubit_op(rng)
    op = compose(ctx, 2, steps) if len(steps) > 1 else\
        library(ctx, "construct", lambda: build(steps[0]), steps)
    if op is None:
        return
    from discopy.quantum.circuit import qubit
    with_dom = rng.random() < .5
    simple = len(steps) == 1 and not steps[0]["dagger"]\
        and not steps[0]["controlled"]
    for a, b in itertools.permutations(range(n), 2):
        kwargs = {"dom": qubit ** n} if with_dom else {}
        size = n if with_dom else max(a, b) + 1
        rewired = library(ctx, "rewire({}, {})".format(a, b),
                          lambda: _G.rewire(op, a, b, **kwargs), steps)
        if rewired is None:
            continue
        observed = observe(ctx, "rewire", rewired, steps)
        if observed is None:
            continue

        def expected_of(mech, a=a, b=b, size=size):
            if simple and not mech:       # tket's own gate on (a, b)
                return tk.placed(steps[0]["kind"], size, (a, b),
                                 steps[0]["phase"])
            return tk.placed_unitary(oracle_product(2, steps, mech),
                                     size, a, b)
        judge(ctx, "rewire-acts-on-a-b", observed, expected_of, steps,
              a=a, b=b, n_qubits=size, dom_given=with_dom,
              circuit=safe_repr(rewired, 400))
        if tk.is_unitary(observed):
            ctx.ok("circuit-is-unitary")
        else:
            ctx.fail("circuit-is-unitary", mechanism=None,
                     spec=describe_all(steps), a=a, b=b)
    rewire_edges(rng, ctx, op, steps, n)
    ctx.mark("rewire|{}|{}|{}".format(n, with_dom, describe_all(steps)))
    if ctx.shard % 4 == 1:
        ctx.sample(kind="rewire", n_qubits=n, op=describe_all(steps),
                   dom_given=with_dom)


def rewire_edges(rng, ctx, op, steps, n):
    """ Requests the statement does not cover: refusals, cod != dom. """
    from discopy.quantum.circuit import qubit
    a = rng.randrange(n)
    for what, fn in [
            ("rewire-same-index", lambda: _G.rewire(op, a, a)),
            ("rewire-small-dom", lambda: _G.rewire(op, 0, 1, dom=qubit)),
            ("rewire-one-qubit-op", lambda: _G.rewire(_G.H, 0, 1))]:
        try:
            fn()
            ctx.count(what + "-returned")
        except ValueError:
            ctx.refuse(what + ":ValueError")
        except Exception as err:
            ctx.count("{}-raised-{}".format(what, type(err).__name__))
    # an op qubit**2 -> qubit: (op >> Id(1) @ Bra(bit))
    bit = rng.randint(0, 1)
    effect = spec("Bra", bits=(bit, ), offset=1)
    narrowed = library(ctx, "compose", lambda: op >> _Id(1) @ _G.Bra(bit))
    if narrowed is None:
        return
    for a, b in [(1, 0), (0, 2), (2, 0), (0, 1)]:
        try:
            rewired = _G.rewire(narrowed, a, b)
        except (NotImplementedError, ValueError) as err:
            ctx.refuse("rewire-cod!=dom:" + type(err).__name__)
            continue
        except Exception as err:
            ctx.count("rewire-cod!=dom-raised-" + type(err).__name__)
            continue
        observed = observe(ctx, "rewire cod!=dom", rewired, steps)
        if observed is None:
            continue
        size, low = max(a, b) + 1, min(a, b)
        all_steps = steps + [effect]

        def expected_of(mech, a=a, b=b, size=size, low=low):
            matrix = oracle_product(2, all_steps, mech)      # 2 x 4
            if a > b:
                matrix = matrix @ tk.unitary("SWAP")
            return tk.embed(matrix, low, size)
        judge(ctx, "rewire-acts-on-a-b", observed, expected_of, all_steps,
              a=a, b=b, n_qubits=size, cod_differs=True,
              circuit=safe_repr(rewired, 400))


def rand_unitary(rng, n):
    """ Flat array (discopy index order) of a random n-qubit unitary. """
    size = 2 ** n
    raw = numpy.array([[complex(rng.gauss(0, 1), rng.gauss(0, 1))
                        for _ in range(size)] for _ in range(size)])
    q, _ = numpy.linalg.qr(raw)
    return tuple(complex(x) for x in q.flatten())


_LAST_ROT = [None]      # reset at the start of every case (replayable)


def rand_gate(rng, width, scalars=True, kets=False):
    """ A random spec fitting `width` wires (offset chosen here). """
    for _ in range(50):
        r = rng.random()
        last = _LAST_ROT[0]
        if last is not None and rng.random() < .15:
            # near-twin of an earlier rotation of the same circuit: same kind
            # and flags, a phase that differs in the 4th-5th significant digit
            # (prints alike, evaluates differently)
            s = dict(last)
            s.pop("offset", None)
            s["phase"] = last["phase"] + rng.choice([-1, 1]) * rng.uniform(1, 4)\
                * 1e-4 * max(abs(last["phase"]), .1)
        elif r < .06:
            n = rng.choice([1, 2, 2])
            s = spec("custom", bits=(n,), value=rand_unitary(rng, n))
        elif r < .22:
            s = spec(rng.choice(ONE_QUBIT_NAMED))
        elif r < .37:
            s = spec(rng.choice(TWO_QUBIT_NAMED))
        elif r < .55:
            s = spec(rng.choice(ONE_QUBIT_ROT), rand_phase(rng))
        elif r < .70:
            s = spec(rng.choice(TWO_QUBIT_ROT), rand_phase(rng))
        elif r < .82:
            kind = rng.choice(ONE_QUBIT_NAMED + ONE_QUBIT_ROT)
            s = spec(kind, rand_phase(rng) if kind in ONE_QUBIT_ROT else None,
                     controlled=True, inner_dagger=rng.random() < .25)
        elif r < .90 and scalars:
            s = spec("scalar", value=rand_scalar(rng)) if rng.random() < .6\
                else spec("sqrt", value=rand_sqrt(rng))
        elif kets:
            n = rng.randint(1, 2)
            s = spec(rng.choice(["Ket", "Bra"]),
                     bits=tuple(rng.randint(0, 1) for _ in range(n)))
        else:
            continue
        if rng.random() < .3:
            s["dagger"] = True
        k_in, k_out = arity(s)
        if k_in > width or width - k_in + k_out > 4:
            continue
        s["offset"] = rng.randint(0, width - k_in)
        if s["phase"] is not None and isinstance(s["phase"], float):
            _LAST_ROT[0] = dict(s)
        return s
    return spec("scalar", value=1.5, offset=rng.randint(0, width))


def rand_steps(rng, n_in, depth, scalars, kets):
    steps, width = [], n_in
    for _ in range(depth):
        s = rand_gate(rng, width, scalars, kets)
        steps.append(s)
        width += arity(s)[1] - arity(s)[0]
    return steps, width


def random_circuit(rng, ctx):
    flavour = rng.random()
    kets = flavour < .33
    scalars = flavour < .6
    if rng.random() < .25:
        # tensor of two circuits: oracle = kron of the two oracle products
        n1, n2 = rng.randint(0 if kets else 1, 2), rng.randint(1, 2)
        steps1, out1 = rand_steps(rng, n1, rng.randint(1, 5), scalars, kets)
        steps2, out2 = rand_steps(rng, n2, rng.randint(1, 5), scalars, kets)
        c1, c2 = compose(ctx, n1, steps1), compose(ctx, n2, steps2)
        if c1 is None or c2 is None:
            return
        circuit = library(ctx, "tensor", lambda: c1 @ c2, steps1 + steps2)
        n_in = n1 + n2
        # as one list of steps: left first, then right shifted by cod of left
        steps = steps1 + [dict(s, offset=s["offset"] + out1) for s in steps2]

        def expected_of(mech):
            return numpy.kron(oracle_product(n1, steps1, mech),
                              oracle_product(n2, steps2, mech))
        shape = "tensor"
    else:
        n_in = rng.randint(0 if kets else 1, 4)
        steps, _ = rand_steps(rng, n_in, rng.randint(1, 10), scalars, kets)
        circuit = compose(ctx, n_in, steps)

        def expected_of(mech):
            return oracle_product(n_in, steps, mech)
        shape = "layers"
    if circuit is None:
        return
    rots = [(t["kind"], t["dagger"], t["controlled"], "{:.3g}".format(t["phase"]),
             t["phase"]) for t in steps if isinstance(t["phase"], float)]
    if len({r[:4] for r in rots}) < len({r for r in rots}):
        ctx.count("circuits_with_rotations_that_print_alike_and_differ")
    observed = observe(ctx, "circuit", circuit, steps)
    if observed is None:
        return
    judge(ctx, "circuit-matches-ordered-product", observed, expected_of, steps,
          n_in=n_in, shape=shape, circuit=safe_repr(circuit, 800))
    if all(s["kind"] not in ("scalar", "sqrt", "Ket", "Bra") for s in steps):
        ok = tk.is_unitary(observed)
        ctx.expect("circuit-is-unitary", ok, mechanism=None,
                   spec=describe_all(steps), circuit=safe_repr(circuit, 800))
    check_dagger_law(ctx, circuit, steps, n_in, observed)
    if len(steps) >= 3:
        ctx.mark("circuit|{}|{}".format(n_in, describe_all(steps)))
    if ctx.shard % 4 >= 2 and len(steps) >= 4:
        ctx.sample(kind="circuit", n_in=n_in, shape=shape,
                   spec=describe_all(steps), repr=safe_repr(circuit, 400))


def run_case(rng, ctx):
    _BATCH[0] = ctx.index          # replayable: the batch pattern follows the case
    _LAST_ROT[0] = None
    kind = ctx.index % 16
    if kind == 0:
        gate_sweep(rng, ctx)
    elif kind in (1, 9):
        rewire_sweep(rng, ctx)
    elif kind == 8:
        ket_bra_sweep(rng, ctx)
    else:
        random_circuit(rng, ctx)


# --------------------------------------------------------------------------
# known findings: mechanism predicates over (monitor, witness)
# --------------------------------------------------------------------------
_MATRIX_MONITORS = ("gate-matches-tket", "controlled-is-diag-I-U",
                    "circuit-matches-ordered-product", "rewire-acts-on-a-b",
                    "ket-bra-basis-vector")


def _pred(mechanism, monitors, kind=None):
    def predicate(monitor, witness):
        return monitor in monitors\
            and witness.get("mechanism") == mechanism\
            and (kind is None or kind in witness.get("kinds", []))
    return predicate


PREDICATES = {
    "y_transposed": _pred(M_Y, _MATRIX_MONITORS, "Y"),
    "ry_transposed": _pred(M_RY, _MATRIX_MONITORS, "Ry"),
    "controlled_dagger_flag": _pred(
        M_CTRL, _MATRIX_MONITORS + ("dagger-is-conjugate-transpose", )),
}
