"""
C02 - strict dagger-monoidal and sum laws as equalities of returned values.

Monitors
  law:<name>        `==` between the two sides of a law (evaluated both ways)
  model:<op>        the library's result has the (dom, cod, boxes, offsets)
                    the list-level model computes from the operands
  eq-non-vacuous    a perturbed value compares unequal (so an `==` that always
                    answers True cannot make the laws hold)
"""
from verif.gen import kits
from verif.instrument import safe_repr
from verif.models import struct
from verif.models.typing import is_box

ID = "C02"
TECHNIQUE = ("runtime monitoring: law monitors on returned values plus a "
             "list-level reference model of then/tensor/dagger/slice/sum")
RULE = ("case = composable triple a, b, c (0-5 boxes each, width 0-4, empty "
        "domains, scalars, daggered boxes) in one of cat, monoidal, rigid, "
        "tensor, circuit, zx, biclosed, cartesian; all slice points 0<=i<=j<=len "
        "plus negative/None bounds; sums of 0-3 terms.  Non-trivial = a, b, c "
        "have >= 3 boxes in total; distinct by repr of the triple."
        "  Also: WordKit (grammar words), negative indices and reversed partial slices (diagrams and bare boxes), empty sums returned by operations fed back in, += histories.")
SIZES = {"quick": (16, 200), "thorough": (16, 4000)}
TIMEOUT = {"quick": 600, "thorough": 5400}
COVER = {
    "discopy.cat:Arrow.then": 0.75,
    "discopy.cat:Arrow.__getitem__": 0.9,
    "discopy.monoidal:Diagram.then": 0.9,
    "discopy.monoidal:Diagram.tensor": 0.8,
    "discopy.monoidal:Diagram.__getitem__": 0.9,
    "discopy.cat:Sum.then": 0.9,
    "discopy.cat:Sum.dagger": 0.9,
    "discopy.cat:Sum.__add__": 0.9,
    "discopy.monoidal:Sum.tensor": 0.8,
}
MIN_EVALS = {"quick": {"law:slice-two-halves": 15000, "law:then-assoc": 2500,
                       "law:sum-then-left-distributes": 2000,
                       "model:then": 3000, "model:tensor": 2000},
             "thorough": {"law:slice-two-halves": 500000}}
ASSUMPTIONS = [
    "in the semantic subclasses a bare box is compared through the one-box "
    "diagram wrapping it, as the statement says",
    "cartesian boxes (Python functions) have no dagger: dagger laws are not "
    "exercised in that class"]

_KITS = None


def setup(ctx):
    global _KITS
    _KITS = [kits.MonoidalKit(), kits.RigidKit(), kits.TensorKit(),
             kits.CircuitKit(), kits.ZXKit(), kits.BiclosedKit(),
             kits.CartesianKit(), kits.MonoidalKit(), kits.RigidKit(zmax=3),
             kits.WordKit()]


def wrap(kit, v):
    """ The one-box diagram wrapping a bare box. """
    if hasattr(v, "offsets") and is_box(v) and type(v).__name__ != "Sum":
        if kit.name == "cartesian":
            return kit.Diagram(len(v.dom), len(v.cod), [v], [0])
        return kit.Diagram(v.dom, v.cod, [v], [0])
    return v


class Laws:
    def __init__(self, ctx, kit):
        self.ctx, self.kit = ctx, kit

    def eq(self, name, lhs, rhs, **witness):
        lhs, rhs = wrap(self.kit, lhs), wrap(self.kit, rhs)
        try:
            ok = bool(lhs == rhs) and bool(rhs == lhs)
        except Exception as err:
            ok = False
            witness["eq_raised"] = type(err).__name__
        self.ctx.expect("law:" + name, ok, cls=self.kit.name,
                        lhs=lambda: safe_repr(lhs), rhs=lambda: safe_repr(rhs),
                        **witness)

    def model(self, op, value, expected, **witness):
        got = struct.key(value)
        self.ctx.expect("model:" + op, got == expected, cls=self.kit.name,
                        value=lambda: safe_repr(value),
                        got=lambda: repr(got)[:1500],
                        expected=lambda: repr(expected)[:1500], **witness)


def differs(ctx, x, y):
    """ `x == y` is False both ways; a raising `==` also counts as unequal. """
    try:
        return not (x == y) and not (y == x)
    except Exception:       # e.g. numpy refusing to compare unequal shapes
        ctx.count("eq_raised_on_unequal_values")
        return True


def dagger_key(k):
    """ List-level dagger: reversed layers with daggered box keys. """
    kind, dom, cod, layers = k
    out, scan = [], dom
    # recompute each layer's offset after the box (same offset), flip box keys
    for bk, off in reversed(layers):
        out.append((flip(bk), off))
    return (kind, cod, dom, tuple(out))


def flip(bk):
    if bk[0] == "Box":
        _, name, dom, cod, data, dag = bk
        return ("Box", name, cod, dom, data, not dag)
    return None     # structural boxes: class-specific daggers, not modelled


def run_case(rng, ctx):
    if ctx.index % 9 == 8:
        return cat_case(rng, ctx)
    kit = _KITS[ctx.index % len(_KITS)]
    laws = Laws(ctx, kit)
    a = kit.rand_diagram(rng, rng.randint(0, 5), width=rng.randint(0, 4))
    b = kit.rand_diagram(rng, rng.randint(0, 4), dom=a.cod)
    c = kit.rand_diagram(rng, rng.randint(0, 3), dom=b.cod)
    has_dagger = kit.name != "cartesian"
    unit = kit.unit()
    ka, kb, kc = struct.key(a), struct.key(b), struct.key(c)
    before = (repr(ka), repr(kb), repr(kc))
    ab, bc = a >> b, b >> c
    # -- composition --------------------------------------------------------
    laws.eq("then-assoc", ab >> c, a >> bc)
    laws.eq("then-assoc-variadic", a.then(b, c), ab >> c)
    laws.eq("then-lshift", c << b << a, ab >> c)
    laws.eq("then-nothing", a.then(), a)
    laws.eq("then-left-unit", kit.id(a.dom) >> a, a)
    laws.eq("then-right-unit", a >> kit.id(a.cod), a)
    laws.model("then", ab, struct.then(ka, kb))
    laws.model("then", ab >> c, struct.then(struct.then(ka, kb), kc))
    # -- tensor -------------------------------------------------------------
    small = len(a.cod) + len(b.cod) + len(c.cod) <= 9
    if small:
        atb = a @ b
        laws.eq("tensor-assoc", atb @ c, a @ (b @ c))
        laws.eq("tensor-assoc-variadic", a.tensor(b, c), atb @ c)
        laws.eq("tensor-nothing", a.tensor(), a)
        laws.eq("tensor-left-unit", kit.id(unit) @ a, a)
        laws.eq("tensor-right-unit", a @ kit.id(unit), a)
        laws.eq("tensor-is-whiskered-composite",
                atb, a @ kit.id(b.dom) >> kit.id(a.cod) @ b)
        laws.model("tensor", atb, struct.tensor(ka, kb))
        laws.model("tensor", atb @ c, struct.tensor(struct.tensor(ka, kb), kc))
        laws.model("tensor", kit.id(b.dom) @ a,
                   struct.tensor(struct.identity(kb[1]), ka))
    # -- dagger -------------------------------------------------------------
    if has_dagger:
        ad, bd = a[::-1], b[::-1]
        laws.eq("dagger-involutive", ad[::-1], a)
        laws.eq("dagger-method-is-slice", a.dagger(), ad)
        laws.eq("dagger-of-identity", kit.id(a.dom)[::-1], kit.id(a.dom))
        laws.eq("dagger-reverses-composition", ab[::-1], bd >> ad)
        ctx.expect("law:dagger-swaps-dom-cod",
                   struct.tykey(ad.dom) == ka[2] and struct.tykey(ad.cod) == ka[1],
                   value=lambda: safe_repr(a))
        expected = dagger_key(ka)
        if kit.name in ("monoidal", "rigid", "biclosed")\
                and all(bk is not None for bk, _ in expected[3]):
            laws.model("dagger", ad, expected)
    # -- slicing ------------------------------------------------------------
    d = ab >> c if len(ab) + len(c) <= 9 else ab
    n = len(d)
    kd = struct.key(d)
    for i in range(n + 1):
        left, right = d[:i], d[i:]
        laws.eq("slice-two-halves", left >> right, d, i=i)
        laws.model("slice", left, (kd[0], kd[1], struct.tykey(left.cod), kd[3][:i]), i=i)
        ctx.expect("model:slice", struct.tykey(left.cod) == struct.tykey(right.dom),
                   i=i, value=lambda: safe_repr(d))
        for j in range(i, n + 1):
            if n <= 6 or rng.random() < .3:
                laws.eq("slice-three-parts", d[:i] >> d[i:j] >> d[j:], d, i=i, j=j)
    # slices of tensor products (their layers are built by another code path)
    if small and len(a) + len(c) <= 8:
        for t in (a @ c, c @ a, (a @ c) >> kit.id(a.cod @ c.cod), a @ kit.id(c.dom) @ c):
            kt, m = struct.key(t), len(t)
            for i in range(m + 1):
                left, right = t[:i], t[i:]
                laws.eq("slice-two-halves", left >> right, t, i=i, of="tensor")
                laws.model("slice", left, (kt[0], kt[1], struct.tykey(left.cod),
                                           kt[3][:i]), i=i, of="tensor")
                laws.model("slice", right, (kt[0], struct.tykey(right.dom), kt[2],
                                            kt[3][i:]), i=i, of="tensor")
                ctx.expect("model:slice",
                           struct.tykey(left.dom) == kt[1]
                           and struct.tykey(right.cod) == kt[2]
                           and struct.tykey(left.cod) == struct.tykey(right.dom),
                           i=i, of="tensor", value=lambda: safe_repr(t))
    laws.eq("slice-none-bounds", d[:], d)
    laws.eq("slice-none-bounds", d[None:None], d)
    for _ in range(3):
        i = rng.randint(-n - 2, n + 2)
        lo = max(0, min(n, i if i >= 0 else n + i))
        laws.eq("slice-negative-and-overshooting-bounds",
                d[:i] >> d[i:], d, i=i)
        laws.model("slice", d[i:], (kd[0], struct.tykey(d[:i].cod), kd[2],
                                    kd[3][lo:]), i=i)
    if n:
        k = rng.randrange(n)
        laws.eq("index-is-the-layer", d[k], d[k:k + 1], k=k)
        # negative indices count from the end, and the layer they return is a
        # diagram like any other (composed, daggered, sliced on)
        last = d[-1]
        laws.eq("index-is-the-layer", last, d[n - 1:n], k=-1)
        laws.eq("index-is-the-layer", d[-n], d[0:1], k=-n)
        laws.eq("index-is-the-layer", d[:-1] >> last, d, how="d[:-1] >> d[-1]")
        laws.eq("slice-two-halves", last[:0] >> last[0:], last, of="d[-1]")
        if has_dagger:
            laws.eq("dagger-involutive", last[::-1][::-1], last, of="d[-1]")
            laws.eq("dagger-reverses-composition", (d[:-1] >> last)[::-1],
                    d[::-1], of="d[:-1] >> d[-1]")
    if has_dagger and kit.name != "biclosed":
        # reversed slices: the list reading, then the dagger
        for k in ([rng.randrange(n)] if n else []) + [0][:n] + [n - 1][:n]:
            laws.eq("slice-reversed-two-halves", d[:k:-1] >> d[k::-1], d[::-1], k=k)
        for box in d.boxes[:2]:
            laws.eq("slice-reversed-two-halves", box[:0:-1] >> box[0::-1],
                    box[::-1], of="bare box")
            laws.eq("slice-reversed-two-halves", box[:0:-1], kit.id(box.cod),
                    of="bare box, empty reversed slice")
    # -- non-vacuity --------------------------------------------------------
    extra = kit.rand_diagram(rng, 1, dom=d.cod)
    if len(extra) == 1:
        ctx.expect("eq-non-vacuous", differs(ctx, d >> extra, d),
                   value=lambda: safe_repr(d), extra=lambda: safe_repr(extra))
    if small and len(a.dom) >= 1 and len(c) >= 1:
        lhs, rhs = a @ c, c @ a
        if struct.key(lhs) != struct.key(rhs):
            ctx.expect("eq-non-vacuous", differs(ctx, lhs, rhs),
                       lhs=lambda: safe_repr(lhs), rhs=lambda: safe_repr(rhs))
    # -- sums ---------------------------------------------------------------
    sums_case(rng, ctx, kit, laws, a, b, c, has_dagger)
    # diagrams are values: no operation may have changed its operands
    after = (repr(struct.key(a)), repr(struct.key(b)), repr(struct.key(c)))
    ctx.expect("operands-unchanged", before == after, cls=kit.name,
               a=lambda: safe_repr(a), b=lambda: safe_repr(b), c=lambda: safe_repr(c),
               changed=[n for n, x, y in zip("abc", before, after) if x != y])
    if len(a) + len(b) + len(c) >= 3:
        ctx.mark(kit.name + safe_repr(a, 300) + safe_repr(b, 300) + safe_repr(c, 200))
    if ctx.index < 27:
        ctx.sample(cls=kit.name, a=safe_repr(a, 200), b=safe_repr(b, 200),
                   c=safe_repr(c, 200))


def alternative(rng, kit, a):
    """ Another diagram with a's domain and codomain. """
    if kit.name in ("monoidal", "rigid", "tensor", "biclosed"):
        other = kit.rand_diagram(rng, rng.randint(0, 2), dom=a.dom)
        fix = kit.box_with_dom(rng, other.cod, cod=a.cod)
        return other >> fix
    return a >> kit.id(a.cod)


def sums_case(rng, ctx, kit, laws, a, b, c, has_dagger):
    if kit.name == "cartesian":
        return
    a2, a3 = alternative(rng, kit, a), alternative(rng, kit, a)
    zero = a.sum([], a.dom, a.cod)
    total = a + a2
    cls = type(total)
    laws.eq("sum-unit-right", a + zero, a.sum([a]))
    laws.eq("sum-unit-left", zero + a, a.sum([a]))
    laws.eq("sum-builtin-zero-start", sum([a, a2, a3]), a + a2 + a3)
    laws.eq("sum-builtin-zero-start", sum([total]), total)
    ctx.expect("model:sum", struct.key(total) == (
        "Sum", struct.tykey(a.dom), struct.tykey(a.cod),
        (struct.key(a), struct.key(a2))), value=lambda: safe_repr(total))
    laws.eq("sum-then-left-distributes", total >> b, (a >> b) + (a2 >> b))
    pre = kit.rand_diagram(rng, rng.randint(0, 2), width=2)
    pre = pre if pre.cod == a.dom else kit.id(a.dom)
    laws.eq("sum-then-right-distributes", pre >> total, (pre >> a) + (pre >> a2))
    laws.eq("sum-then-variadic", total.then(b, c), (total >> b) >> c)
    laws.eq("sum-of-sums-then", total >> (b + b), (a >> b) + (a >> b) + (a2 >> b) + (a2 >> b))
    if len(a.cod) + len(c.cod) <= 7:
        laws.eq("sum-tensor-left-distributes", total @ c, (a @ c) + (a2 @ c))
        laws.eq("sum-tensor-right-distributes", c @ total, (c @ a) + (c @ a2))
        if len(a.cod) + 2 * len(c.cod) <= 7:
            laws.eq("sum-tensor-variadic", total.tensor(c, c), (total @ c) @ c)
        laws.eq("empty-sum-absorbs-tensor", zero @ c,
                a.sum([], a.dom @ c.dom, a.cod @ c.cod))
        laws.eq("empty-sum-absorbs-tensor", c @ zero,
                a.sum([], c.dom @ a.dom, c.cod @ a.cod))
    laws.eq("empty-sum-absorbs-then", zero >> b, a.sum([], a.dom, b.cod))
    laws.eq("empty-sum-absorbs-then", pre >> zero, a.sum([], pre.dom, a.cod))
    # sums RETURNED by the operations must behave as sums in a second step
    # (also the EMPTY sums they return: equal to the right zero when looked
    # at, but only a real sum of this class can be composed and tensored on)
    derived = [("then", total >> b, [a >> b, a2 >> b]),
               ("then-of-zero", zero >> b, []), ("zero-then", pre >> zero, [])]
    if has_dagger:
        derived.append(("dagger", total[::-1], [a[::-1], a2[::-1]]))
        derived.append(("dagger-of-zero", zero[::-1], []))
    if len(a.cod) + len(c.cod) <= 6:
        derived.append(("tensor", total @ c, [a @ c, a2 @ c]))
        derived.append(("tensor-of-zero", zero @ c, []))
    for how, value, terms in derived:
        tail = kit.rand_diagram(rng, rng.randint(0, 1), dom=value.cod)
        head = kit.rand_diagram(rng, rng.randint(0, 1), width=2)
        head = head if head.cod == value.dom else kit.id(value.dom)
        side = kit.rand_diagram(rng, 1, width=1)

        def total_of(items, dom, cod):
            return a.sum(list(items), dom, cod)
        laws.eq("derived-sum-then", value >> tail,
                total_of([t >> tail for t in terms], value.dom, tail.cod), how=how)
        laws.eq("derived-sum-then", head >> value,
                total_of([head >> t for t in terms], head.dom, value.cod), how=how)
        if len(value.cod) + len(side.cod) <= 7 and len(value.dom) + len(side.dom) <= 7:
            laws.eq("derived-sum-tensor", value @ side,
                    total_of([t @ side for t in terms], value.dom @ side.dom,
                             value.cod @ side.cod), how=how)
            laws.eq("derived-sum-tensor", side @ value,
                    total_of([side @ t for t in terms], side.dom @ value.dom,
                             side.cod @ value.cod), how=how)
        laws.eq("derived-sum-plus", value + value,
                total_of(terms + terms, value.dom, value.cod), how=how)
        if has_dagger:
            laws.eq("derived-sum-dagger", value[::-1],
                    total_of([t[::-1] for t in terms], value.cod, value.dom), how=how)
    # histories: accumulating with += must not touch the sum it started from
    # (nor any other name of that object)
    acc = zero
    acc += a
    laws.eq("sum-accumulate", acc, a.sum([a]), how="zero += a")
    laws.eq("sum-accumulate", zero, a.sum([], a.dom, a.cod),
            how="the zero that += started from")
    laws.eq("sum-unit-left", zero + a2, a.sum([a2]), how="after +=")
    running = sum([total])
    running += a3
    laws.eq("sum-accumulate", running, a + a2 + a3, how="sum([total]) += a3")
    laws.eq("sum-accumulate", total, a.sum([a, a2]),
            how="the sum that += started from")
    if has_dagger:
        laws.eq("sum-dagger-distributes", total[::-1], a[::-1] + a2[::-1])
        laws.eq("sum-dagger-distributes", zero[::-1], a.sum([], a.cod, a.dom))
        laws.eq("sum-dagger-involutive", total[::-1][::-1], total)
    if struct.key(a) != struct.key(a2):
        ctx.expect("eq-non-vacuous", differs(ctx, a + a2, a2 + a)
                   and differs(ctx, total, a.sum([a])),
                   lhs=lambda: safe_repr(total))


def cat_case(rng, ctx):
    kit = kits.CatKit()
    cat = kit.mod

    class K:
        name = "cat"
    laws = Laws(ctx, K)
    a = kit.rand_arrow(rng, rng.randint(0, 5))
    b = kit.rand_arrow(rng, rng.randint(0, 4), dom=a.cod)
    c = kit.rand_arrow(rng, rng.randint(0, 3), dom=b.cod)
    ka, kb, kc = struct.key(a), struct.key(b), struct.key(c)
    ab = a >> b
    laws.eq("then-assoc", ab >> c, a >> (b >> c))
    laws.eq("then-assoc-variadic", a.then(b, c), ab >> c)
    laws.eq("then-left-unit", cat.Id(a.dom) >> a, a)
    laws.eq("then-right-unit", a >> cat.Id(a.cod), a)
    laws.model("then", ab >> c, struct.then(struct.then(ka, kb), kc))
    laws.eq("dagger-involutive", a[::-1][::-1], a)
    laws.eq("dagger-of-identity", cat.Id(a.dom)[::-1], cat.Id(a.dom))
    laws.eq("dagger-reverses-composition", ab[::-1], b[::-1] >> a[::-1])
    d = ab >> c
    n = len(d)
    kd = struct.key(d)
    for i in range(n + 1):
        laws.eq("slice-two-halves", d[:i] >> d[i:], d, i=i)
        laws.model("slice", d[:i], ("A", kd[1], struct.tykey(d[:i].cod), kd[3][:i]), i=i)
        for j in range(i, n + 1):
            laws.eq("slice-three-parts", d[:i] >> d[i:j] >> d[j:], d, i=i, j=j)
    for _ in range(3):
        i = rng.randint(-n - 2, n + 2)
        laws.eq("slice-negative-and-overshooting-bounds", d[:i] >> d[i:], d, i=i)
    a2 = kit.rand_arrow(rng, rng.randint(0, 2), dom=a.dom)
    a2 = a2 >> kit.box(rng, a2.cod, a.cod)
    zero = cat.Sum([], a.dom, a.cod)
    total = a + a2
    laws.eq("sum-unit-right", a + zero, cat.Sum([a]))
    laws.eq("sum-unit-left", zero + a, cat.Sum([a]))
    laws.eq("sum-then-left-distributes", total >> b, (a >> b) + (a2 >> b))
    laws.eq("sum-then-right-distributes",
            cat.Id(a.dom) >> total, total)
    laws.eq("sum-dagger-distributes", total[::-1], a[::-1] + a2[::-1])
    laws.eq("empty-sum-absorbs-then", zero >> b, cat.Sum([], a.dom, b.cod))
    laws.eq("sum-builtin-zero-start", sum([a, a2]), a + a2)
    if len(a) + len(b) + len(c) >= 3:
        ctx.mark("cat" + safe_repr(d, 600))
