"""
C13 - translation to and from tket preserves the meaning of circuits.

Monitors
  export-eval-matches-local     c.eval(ExactBackend) (to_tk + exact tket simulation +
                                recorded post-selection / scalar / post-processing)
                                == c.init_and_discard().eval(mixed=True)
  export-counts-match-local     c.get_counts(ExactBackend) == c.get_counts()
  export-structure              bit count of the tket circuit = measured + prepared bits
  roundtrip-eval                Circuit.from_tk(c.to_tk()).eval(mixed=True) == the same
  import-eval-matches-tket      Circuit.from_tk(t).eval(mixed=True) == exact simulation
                                of the tket circuit t (own branch simulator)
  refusal-only-if-unsupported   NotImplementedError only for operations outside the
                                exportable / supported sets
"""
import numpy

from verif.instrument import safe_repr
from verif.models import tk_sim
from verif.models.typing import well_typed

ID = "C13"
TECHNIQUE = ("runtime monitoring: exact branch simulation of the exported / "
             "imported tket circuits (tket's own unitaries) as reference model, "
             "compared with discopy's mixed evaluation on every case")
RULE = ("case = random circuit over the exportable set (Ket, Bra, Bits(0), H, S, "
        "T, X, Y, Z, CX, CZ, CY, CH, SWAP, Rx, Rz, CRz, Measure in its variants, "
        "Discard, pure/mixed scalars, Copy/Match/NOT, bit and qubit swaps) with "
        "preparations, post-selections and measurements at arbitrary depths and "
        "positions, <= 4 live wires (5 for an eighth of the thorough tier: the mixed evaluation costs 16**wires), <= 10 boxes; or a random tket circuit over "
        "{H,S,T,X,Y,Z,CX,CZ,Rx,Rz,CRz,Measure} on <= 4 qubits / <= 2 bits.  "
        "Non-trivial = at least one measurement/post-selection and one "
        "mid-circuit preparation or swap; distinct by repr."
        "  Also: export/import histories on the same objects (first export disturbed, second export and evaluation; from_tk leaves its argument alone; second import) and batch evaluation/counting through the backend.")
SIZES = {"quick": (16, 60), "thorough": (16, 1000)}
TIMEOUT = {"quick": 900, "thorough": 7200}
COVER = {"discopy.quantum.tk:to_tk": 0.85,
         "discopy.quantum.tk:to_tk.prepare_qubits": 0.9,
         "discopy.quantum.tk:to_tk.prepare_bits": 0.9,
         "discopy.quantum.tk:to_tk.measure_qubits": 0.9,
         "discopy.quantum.tk:to_tk.swap": 0.9,
         "discopy.quantum.tk:to_tk.add_gate": 0.85,
         "discopy.quantum.tk:to_tk.remove_ket1": 0.9,
         "discopy.quantum.tk:Circuit.get_counts": 0.7,
         "discopy.quantum.tk:Circuit.add_bit": 0.9,
         "discopy.quantum.tk:Circuit.rename_units": 0.9,
         "discopy.quantum.tk:from_tk": 0.85,
         "discopy.quantum.tk:from_tk.make_units_adjacent": 0.85,
         "discopy.quantum.tk:from_tk.box_from_tk": 0.85}
MIN_EVALS = {"quick": {"export-eval-matches-local": 450, "roundtrip-eval": 280,
                       "import-eval-matches-tket": 130},
             "thorough": {"export-eval-matches-local": 10000}}
ASSUMPTIONS = [
    "tket's op.get_unitary() is trusted for the gate matrices; measurement and "
    "classical-register semantics are simulated by the harness (models/tk_sim.py)",
    "the reference for an exported circuit is discopy's own mixed evaluation of "
    "c.init_and_discard(), as the statement says (C12 checks that evaluation "
    "against an independent simulator)",
    "daggers of S/T are not exported and SWAP is not imported (outside the listed "
    "sets): NotImplementedError there is an allowed refusal"]
_ENV = {}
_EXPORT = ("export-structure", "export-eval-matches-local",
           "export-counts-match-local", "roundtrip-eval")


def has(witness, mechanism):
    return mechanism in (witness.get("mechanisms") or [])


def discard_of_a_bit(monitor, witness):
    """ to_tk drops a discarded bit from its own bookkeeping only: the tket
    circuit and the post-processing keep it, so results have a wire too many
    (or later offsets go wrong: IndexError / AxiomError). """
    return monitor in _EXPORT and has(witness, "discards_a_bit")


def bits_left_of_bit(monitor, witness):
    """ prepare_bits renames the tket registers to make room at register
    bits[offset - 1] + 1 AND swaps the new wire in the post-processing, whose
    domain it extends at the END: as soon as a live (not post-selected)
    register is numbered at or above the new one, domain order and register
    order disagree.  The harness replays the register numbering of the export
    (circuit_facts) to flag exactly those preparations. """
    return monitor in _EXPORT and has(witness, "bits_prepared_below_a_live_register")


def counts_ignore_post_processing(monitor, witness):
    """ Circuit.get_counts(backend) never applies tk_circuit.post_processing
    (only Circuit.eval(backend) does). """
    return monitor == "export-counts-match-local"\
        and witness.get("has_post_processing") is True\
        and witness.get("eval_agrees") is True


def bit_swap_after_post_selection(monitor, witness):
    """ a Swap(bit, bit) exported by renaming registers goes through
    Bit('tmp', 0), whose index 0 collides with a post-selected register 0 in
    tk.Circuit.rename_units, so the post-selection moves to another bit. """
    return monitor in _EXPORT and has(witness, "bit_swap_after_a_post_selection")


def register_operation_after_classical_gate(monitor, witness):
    """ to_tk defers every classical gate to the post-processing, which runs
    after the whole tket circuit: a Measure(override_bits=True) or a Bits
    preparation that comes AFTER a classical gate in the diagram acts on the
    registers as they were before it (wrong order of effects; with gates that
    change the number of bits the offsets also go out of range).  A
    Swap(bit, bit) is deferred in the same way as soon as the post-processing
    holds a box (e.g. after a Measure that inserted its bit left of another
    one), and then counts as a classical gate here. """
    return monitor in _EXPORT\
        and has(witness, "bit_register_operation_after_a_classical_gate")


def import_post_selection_renumbering(monitor, witness):
    """ from_tk numbers the bits of the imported circuit without the
    post-selected registers but keeps using tket's register indices, so a
    post-selected bit before a measured/prepared one gives AxiomError. """
    return monitor == "roundtrip-eval"\
        and has(witness, "post_selection_before_a_bit_is_created")\
        and (witness.get("exception") in ("AxiomError", "IndexError")
             or witness.get("export_agrees") is True)


PREDICATES = {
    "discard_of_a_bit": discard_of_a_bit, "bits_left_of_bit": bits_left_of_bit,
    "counts_ignore_post_processing": counts_ignore_post_processing,
    "register_operation_after_classical_gate": register_operation_after_classical_gate,
    "bit_swap_after_post_selection": bit_swap_after_post_selection,
    "import_post_selection_renumbering": import_post_selection_renumbering}


def setup(ctx):
    import pytket
    from discopy import quantum
    from discopy.quantum import circuit, gates
    _ENV.update(pytket=pytket, circuit=circuit, gates=gates, quantum=quantum)


# -- export --------------------------------------------------------------------------

def phase(rng):
    return rng.choice([0.25, -0.5, 0.125, 1.0, 0.3, -1.7, 0.0417, 0.75, 1.25, -0.25])


def pool(rng):
    g, c = _ENV["gates"], _ENV["circuit"]
    bit, qubit = c.bit, c.qubit
    return [
        ("ket", g.Ket(rng.randint(0, 1))), ("ket", g.Ket(rng.randint(0, 1))),
        ("ket", g.Ket(rng.randint(0, 1), rng.randint(0, 1))),
        ("bra", g.Bra(rng.randint(0, 1))), ("bra", g.Bra(rng.randint(0, 1))),
        ("bits", g.Bits(0)), ("bits", g.Bits(0, 0)),
        ("gate", g.H), ("gate", g.S), ("gate", g.T), ("gate", g.X), ("gate", g.Y),
        ("gate", g.Z), ("gate", g.CX), ("gate", g.CZ), ("gate", g.CX),
        ("gate-noimport", g.Controlled(g.Y)), ("gate-noimport", g.Controlled(g.H)),
        ("swap", g.SWAP), ("swap", g.SWAP),
        ("gate", g.Rx(phase(rng))), ("gate", g.Rz(phase(rng))),
        ("gate", g.CRz(phase(rng))),
        ("measure", c.Measure()), ("measure", c.Measure()),
        ("measure", c.Measure(destructive=False)),
        ("measure", c.Measure(override_bits=True)),
        ("measure", c.Measure(2)),
        ("discard", c.Discard()), ("discard", c.Discard(bit)),
        ("scalar", g.scalar(complex(round(rng.uniform(-1, 1), 2),
                                    round(rng.uniform(-1, 1), 2)))),
        ("scalar", g.scalar(round(rng.uniform(0.2, 2), 2), is_mixed=True)),
        ("scalar", g.scalar(rng.choice([-0.5, -1, -1.25, 0.5 - 0.5j]), is_mixed=True)),
        ("scalar", g.sqrt(2)),
        ("classical", g.Copy()), ("classical", g.Match()),
        ("classical", g.ClassicalGate("NOT", 1, 1, [0, 1, 1, 0])),
        ("classical", g.ClassicalGate("AND", 2, 1, [1, 0, 1, 0, 1, 0, 0, 1])),
        ("swap", c.Swap(bit, bit)), ("swap", c.Swap(bit, qubit)),
        ("swap", c.Swap(qubit, bit)),
        ("unsupported", g.Bits(1))]


def circuit_facts(d):
    """
    Which known-defect mechanisms of to_tk / from_tk the circuit can trigger.
    Follows the register bookkeeping of the export for classical bits (new
    register numbers, renaming on preparation) closely enough to tell a Bits
    preparation that lands on the highest register (fine) from one that does
    not (known finding), so that only the latter is absorbed.
    """
    c, g = _ENV["circuit"], _ENV["gates"]
    full = d.init_and_discard()
    bits, n_total = [], 0
    facts, seen_bra, seen_classical = set(), False, False
    deferred = False     # the post-processing already holds a box
    for left, box, right in full.layers:
        name = type(box).__name__
        off = left.count(c.bit)
        if name == "Measure" and not box.override_bits:
            for j in range(box.n_qubits):
                if off + j < len(bits):
                    deferred = True      # add_bit(offset=) swaps the new wire in
                bits.insert(off + j, n_total)
                n_total += 1
            if seen_bra:
                facts.add("post_selection_before_a_bit_is_created")
        elif name == "Measure":
            if seen_classical:
                facts.add("bit_register_operation_after_a_classical_gate")
        elif name == "Bra":
            n_total += len(box.dom)
            seen_bra = True
        elif name == "Bits" and not box.is_dagger:
            k = len(box.cod)
            if seen_classical:
                facts.add("bit_register_operation_after_a_classical_gate")
            if seen_bra:
                facts.add("post_selection_before_a_bit_is_created")
            if off < len(bits):
                deferred = True
            start = n_total if not bits else 0 if off == 0 else (
                bits[off - 1] + 1 if off - 1 < len(bits) else n_total)
            if any(r >= start for r in bits):
                facts.add("bits_prepared_below_a_live_register")
            bits = [r + k if r >= start else r for r in bits]
            bits[off:off] = list(range(start, start + k))
            n_total += k
        elif name == "Discard" and box.dom.count(c.bit):
            facts.add("discards_a_bit")
            nb = box.dom.count(c.bit)
            bits = bits[:off] + bits[off + nb:]
        elif name == "Swap" and box.dom == c.bit @ c.bit:
            if seen_bra:
                facts.add("bit_swap_after_a_post_selection")
            if deferred:
                # once the post-processing holds a box, to_tk appends bit swaps
                # to it instead of renaming registers: the swap is deferred
                # exactly like a classical gate
                seen_classical = True
        elif isinstance(box, g.ClassicalGate):
            seen_classical = deferred = True
    return facts


def scenario(rng):
    """ Structured families aimed at the register bookkeeping of the export. """
    c, g = _ENV["circuit"], _ENV["gates"]
    Id, qubit, bit = c.Id, c.qubit, c.bit
    one = [g.H, g.X, g.Y, g.Z, g.S, g.T, g.Rx(phase(rng)), g.Rz(phase(rng))]

    def sprinkle(d, n):
        for _ in range(n):
            spots = [i for i in range(len(d.cod)) if d.cod[i:i + 1] == qubit]
            if not spots:
                break
            i = rng.choice(spots)
            d = d >> Id(d.cod[:i]) @ rng.choice(one) @ Id(d.cod[i + 1:])
        return d

    def two_qubit(d):
        spots = [i for i in range(len(d.cod) - 1) if d.cod[i:i + 2] == qubit @ qubit]
        if spots:
            i = rng.choice(spots)
            gate = rng.choice([g.CX, g.CZ, g.CRz(phase(rng)), g.SWAP])
            d = d >> Id(d.cod[:i]) @ gate @ Id(d.cod[i + 2:])
        return d
    r = rng.random()
    if r < .3:
        # interference: rotations with phases well outside [0, 1) between two
        # layers of Hadamards, so that relative signs on the control matter
        n = rng.randint(2, 3)
        wide = [0.25, -0.25, -0.5, 1.25, 1.5, -1.7, 2.75, -3.1, 0.9]
        d = g.Ket(*[rng.randint(0, 1) for _ in range(n)])
        d = d >> Id(0).tensor(*[g.H if rng.random() < .8 else Id(1) for _ in range(n)])
        for _ in range(rng.randint(1, 3)):
            i = rng.randrange(n - 1)
            gate = rng.choice([g.CRz(rng.choice(wide)), g.CRz(rng.choice(wide)), g.CZ,
                               g.CX, g.Controlled(g.Y)])
            d = d >> Id(i) @ gate @ Id(n - i - 2)
            j = rng.randrange(n)
            one_q = rng.choice([g.Rz(rng.choice(wide)), g.Rx(rng.choice(wide)), g.H, g.S])
            d = d >> Id(j) @ one_q @ Id(n - j - 1)
        d = d >> Id(0).tensor(*[g.H if rng.random() < .8 else Id(1) for _ in range(n)])
        d = d >> Id(0).tensor(*[c.Measure() if rng.random() < .8 else c.Discard()
                                for _ in range(n)])
        return d, ["ket", "gate", "measure"]
    if r < .65:
        # qubit swaps, then a preparation in the middle, then entangling gates
        n = rng.randint(2, 3)
        d = g.Ket(*[rng.randint(0, 1) for _ in range(n)])
        d = sprinkle(d, rng.randint(0, 2))
        for _ in range(rng.randint(1, 2)):
            i = rng.randrange(n - 1)
            d = d >> Id(i) @ g.SWAP @ Id(n - i - 2)
        i = rng.randint(0, n)
        d = d >> Id(i) @ g.Ket(rng.randint(0, 1)) @ Id(n - i)
        for _ in range(rng.randint(1, 3)):
            d = sprinkle(two_qubit(d), rng.randint(0, 1))
        kinds = ["ket", "ket", "swap", "measure"]
        m = len(d.cod)
        keep = [rng.random() < .8 for _ in range(m)]
        d = d >> Id(0).tensor(*[c.Measure() if k else c.Discard() for k in keep])
        return d, kinds
    # post-selections next to live bits, then classical preparations
    n = rng.randint(2, 4)
    d = sprinkle(g.Ket(*[rng.randint(0, 1) for _ in range(n)]), rng.randint(1, 3))
    d = two_qubit(d)
    roles = [rng.choice(["measure", "bra", "bra", "keep"]) for _ in range(n)]
    if "measure" not in roles:
        roles[rng.randrange(n)] = "measure"
    if rng.random() < .5:          # live bit first, post-selections after it
        roles.sort(key=lambda r: {"measure": 0, "bra": 1, "keep": 2}[r])
    layer = Id(0).tensor(*[
        c.Measure() if r == "measure" else g.Bra(rng.randint(0, 1)) if r == "bra"
        else Id(1) for r in roles])
    d = d >> layer
    for _ in range(rng.randint(1, 2)):
        if len(d.cod) >= 4:
            break
        spots = [i for i in range(len(d.cod) + 1)]
        i = rng.choice(spots) if rng.random() < .5 else len(d.cod)
        d = d >> Id(d.cod[:i]) @ g.Bits(*([0] * rng.choice([1, 1, 2]))) @ Id(d.cod[i:])
    d = sprinkle(d, 1)
    return d, ["ket", "ket", "measure", "bra", "bits"]


def rand_circuit(rng, nboxes, clean, maxw=4):
    c = _ENV["circuit"]
    if rng.random() < .3:
        d, kinds = scenario(rng)
        facts = circuit_facts(d)
        if not (clean and facts) and len(d.cod) <= maxw:
            return d, kinds, facts
    dom = c.Ty()
    for _ in range(rng.choice([0, 0, 0, 1, 2])):
        dom = dom @ (c.qubit if rng.random() < .7 else c.bit)
    d, scan, kinds, facts = c.Id(dom), dom, [], set()
    for _ in range(nboxes):
        options = pool(rng)
        for _ in range(40):
            kind, box = options[rng.randrange(len(options))]
            if kind == "unsupported" and (clean or rng.random() < .9):
                continue
            n = len(box.dom)
            if len(scan) - n + len(box.cod) > maxw:
                continue
            spots = [i for i in range(len(scan) - n + 1) if scan[i:i + n] == box.dom]
            if not spots:
                continue
            i = rng.choice(spots)
            candidate = d >> c.Id(scan[:i]) @ box @ c.Id(scan[i + n:])
            new = circuit_facts(candidate)
            if clean and new:
                continue
            d, facts, scan = candidate, new, candidate.cod
            kinds.append(kind)
            break
    return d, kinds, facts


def as_array(value, n_bits):
    array = numpy.asarray(getattr(value, "array", value), dtype=complex)
    return array.reshape((2,) * n_bits or (1,))


def tk_snapshot(t):
    """ Everything a tket circuit needs to mean what the diagram means. """
    return (repr(t.get_commands()), repr(sorted(t.post_selection.items())),
            repr(t.scalar), safe_repr(t.post_processing, 4000),
            t.n_qubits, t.n_bits)


def export_history(rng, ctx, d, tk, snap, expected, n_bits, witness):
    """
    Histories on ONE circuit object: its first export is used, disturbed and
    thrown away by the caller; the circuit did not change, so neither may a
    second export or a second evaluation through the backend.
    """
    disturbance = rng.choice(["none", "edit-first-export", "measure-all-counts",
                              "run-first-export"])
    try:
        if disturbance == "edit-first-export":
            if tk.n_qubits:
                tk.X(0)
            tk.scale(0.5)
            tk.post_select({k: 1 - v for k, v in tk.post_selection.items()})
        elif disturbance == "measure-all-counts":
            d.get_counts(tk_sim.ExactBackend(), measure_all=True)
        elif disturbance == "run-first-export":
            tk.get_counts(backend=tk_sim.ExactBackend())
    except Exception as err:
        ctx.count("history_disturbance_raised:" + type(err).__name__)
    ctx.count("export_history:" + disturbance)
    again = d.to_tk()
    snap2 = tk_snapshot(again)
    ctx.expect("export-structure", snap2 == snap,
               reason="a second export of the same circuit object differs "
               "from the first", history=disturbance, first=snap, second=snap2,
               **witness)
    got = as_array(d.eval(tk_sim.ExactBackend()), n_bits)
    ctx.expect("export-eval-matches-local",
               numpy.allclose(got, expected, atol=1e-7),
               reason="second evaluation through the backend", history=disturbance,
               got=lambda: numpy.round(got, 5).tolist(),
               expected=lambda: numpy.round(expected, 5).tolist(),
               tket=lambda: repr(again), **witness)


def batch_history(rng, ctx, d, expected, n_bits, witness):
    """
    The batch forms circuit.eval(*others, backend=) and get_counts(*others,
    backend=): every circuit of the batch is post-selected, scaled and
    post-processed with ITS OWN side information, whatever its position.
    """
    q = _ENV["quantum"]
    companions = [
        lambda: q.Rx(0.3) >> q.Measure(),
        lambda: q.sqrt(2) @ q.Ket(0) >> q.H >> q.Measure(),
        lambda: q.Ket(0, 0) >> q.H @ q.X >> q.CX >> q.Measure() @ q.Bra(1),
        lambda: q.Ket(1, 0) >> q.CX >> q.Measure(2),
        lambda: q.scalar(0.5) @ q.Ket(0) >> q.Rx(0.25) >> q.Measure()]
    other = companions[rng.randrange(len(companions))]()
    m_bits = len(other.init_and_discard().cod)
    want_other = as_array(other.init_and_discard().eval(mixed=True), m_bits)
    d_first = rng.random() < .5
    batch = (d, other) if d_first else (other, d)
    wants = (expected, want_other) if d_first else (want_other, expected)
    bits = (n_bits, m_bits) if d_first else (m_bits, n_bits)
    history = "batch of two, circuit under test {}".format(
        "first" if d_first else "second")
    try:
        results = batch[0].eval(batch[1], backend=tk_sim.ExactBackend())
        good = isinstance(results, list) and len(results) == 2
        values = [as_array(r, k) for r, k in zip(results, bits)] if good else []
        good = good and all(numpy.allclose(v, w, atol=1e-7)
                            for v, w in zip(values, wants))
        ctx.expect("export-eval-matches-local", good, history=history,
                   companion=lambda: safe_repr(other, 300),
                   got=lambda: [numpy.round(v, 5).tolist() for v in values],
                   expected=lambda: [numpy.round(w, 5).tolist() for w in wants],
                   **witness)
    except Exception as err:
        ctx.fail("export-eval-matches-local", exception=type(err).__name__,
                 message=str(err)[:300], history=history,
                 companion=safe_repr(other, 300), **witness)
    try:
        counts = batch[0].get_counts(batch[1], backend=tk_sim.ExactBackend())
        mine = counts[1 if d_first else 0]
        table = numpy.zeros((2,) * m_bits or (1,), dtype=complex)
        ok = all(isinstance(k, tuple) and len(k) == m_bits for k in mine)
        if ok:
            for k, v in mine.items():
                table[k if m_bits else (0,)] += v
        ctx.expect("export-counts-match-local",
                   ok and numpy.allclose(table, want_other, atol=1e-7),
                   history=history + " (counts of the companion)",
                   companion=lambda: safe_repr(other, 300),
                   counts=lambda: repr(mine)[:400],
                   expected=lambda: numpy.round(want_other, 5).tolist(), **witness)
    except Exception as err:
        ctx.fail("export-counts-match-local", exception=type(err).__name__,
                 message=str(err)[:300], history=history,
                 companion=safe_repr(other, 300), **witness)
    ctx.count("batch_histories")


def export_case(rng, ctx):
    c = _ENV["circuit"]
    clean = ctx.index % 2 == 0
    maxw = 5 if ctx.tier == "thorough" and ctx.index % 8 == 1 else 4
    d, kinds, mechanisms = rand_circuit(rng, rng.randint(1, 10), clean, maxw)
    if any(getattr(b, "name", "") in ("CY", "CH") for b in d.boxes):
        kinds = kinds + ["gate-noimport"]    # exportable, but from_tk has no CY/CH
    ctx.count("clean_circuits" if clean else "unrestricted_circuits")
    witness = dict(circuit=lambda: safe_repr(d, 3000), offsets=d.offsets,
                   clean_mode=clean, mechanisms=sorted(mechanisms))
    closed = d.init_and_discard()
    n_bits = len(closed.cod)
    try:
        expected = as_array(closed.eval(mixed=True), n_bits)
    except Exception as err:
        ctx.count("local_evaluation_failed:" + type(err).__name__)
        return          # C12's business
    unsupported = "unsupported" in kinds
    try:
        tk = d.to_tk()
    except NotImplementedError:
        ctx.expect("refusal-only-if-unsupported", unsupported, where="to_tk", **witness)
        ctx.refuse("to_tk:NotImplementedError")
        return
    except Exception as err:
        ctx.fail("export-structure", exception=type(err).__name__,
                 message=str(err)[:300], where="to_tk",
                 **witness)
        return
    if unsupported:
        ctx.count("unsupported_op_exported_anyway")
    snap = tk_snapshot(tk)
    ctx.expect("export-structure",
               len(tk.post_processing.cod) == n_bits
               and tk.n_bits - len(tk.post_selection) == len(tk.post_processing.dom),
               tket=lambda: repr(tk), n_bits=n_bits,
               **witness)
    backend = tk_sim.ExactBackend()
    try:
        got = as_array(d.eval(backend), n_bits)
    except Exception as err:
        ctx.fail("export-eval-matches-local", exception=type(err).__name__,
                 message=str(err)[:300], tket=lambda: repr(tk),
                 **witness)
        return
    facts = {}
    same = numpy.allclose(got, expected, atol=1e-7)
    ctx.expect("export-eval-matches-local", same, tket=lambda: repr(tk),
               got=lambda: numpy.round(got, 5).tolist(),
               expected=lambda: numpy.round(expected, 5).tolist(),
               equal_up_to_bit_permutation=lambda: up_to_axis_permutation(got, expected),
               **dict(witness, **facts))
    try:
        counts = d.get_counts(tk_sim.ExactBackend())
        ok = all(isinstance(k, tuple) and len(k) == n_bits for k in counts)
        table = numpy.zeros((2,) * n_bits or (1,), dtype=complex)
        if ok:
            for k, v in counts.items():
                table[k if n_bits else (0,)] += v
        ctx.expect("export-counts-match-local",
                   ok and numpy.allclose(table, expected, atol=1e-7),
                   counts=lambda: repr(counts)[:600],
                   expected=lambda: numpy.round(expected, 5).tolist(),
                   eval_agrees=bool(same),
                   has_post_processing=len(tk.post_processing.boxes) > 0,
                   **dict(witness, **facts))
    except Exception as err:
        ctx.fail("export-counts-match-local", exception=type(err).__name__,
                 message=str(err)[:300], **dict(witness, **facts))
    if same and rng.random() < .5:
        batch_history(rng, ctx, d, expected, n_bits, witness)
    if same:
        try:
            export_history(rng, ctx, d, tk, snap, expected, n_bits, witness)
        except Exception as err:
            ctx.fail("export-eval-matches-local", exception=type(err).__name__,
                     message=str(err)[:300], where="second export / evaluation",
                     **witness)
    if ("measure" in kinds or "bra" in kinds) and\
            (kinds.count("ket") >= 2 or "swap" in kinds):
        ctx.mark(safe_repr(d, 2000))
    if ctx.index < 24:
        ctx.sample(circuit=safe_repr(d, 500), tket=repr(tk)[:400], n_bits=n_bits)
    # round trip (the imported circuit carries EVERY tket qubit and bit as a wire
    # from top to bottom, and the mixed evaluation costs 16**wires)
    if tk.n_qubits + tk.n_bits > 5:
        ctx.count("roundtrip_skipped_too_many_registers")
        return
    exported = d.to_tk()
    snap_rt = tk_snapshot(exported)
    try:
        back = c.Circuit.from_tk(exported)
    except NotImplementedError:
        ctx.expect("refusal-only-if-unsupported",
                   "gate-noimport" in kinds or unsupported,
                   where="from_tk(to_tk)", **witness)
        ctx.refuse("from_tk:NotImplementedError")
        back = None
    except Exception as err:
        ctx.fail("roundtrip-eval", exception=type(err).__name__,
                 message=str(err)[:300], where="from_tk(to_tk(c))",
                 tket=lambda: repr(tk), **dict(witness, **facts))
        back = None
    if back is not None:
        # import leaves its argument alone: same side information afterwards,
        # and importing the same tket object again gives the same circuit
        after = tk_snapshot(exported)
        ctx.expect("roundtrip-eval", after == snap_rt,
                   reason="from_tk changed the tket circuit it was given",
                   before=snap_rt, after=after, **witness)
        try:
            back2 = c.Circuit.from_tk(exported)
            ctx.expect("roundtrip-eval", back2 == back,
                       reason="importing the same tket object twice gives two "
                       "different circuits", first=lambda: safe_repr(back, 2000),
                       second=lambda: safe_repr(back2, 2000), **witness)
        except Exception as err:
            ctx.fail("roundtrip-eval", exception=type(err).__name__,
                     message=str(err)[:300], where="second from_tk of the same "
                     "tket object", **witness)
        ok, why = well_typed(back)
        try:
            value = as_array(back.eval(mixed=True), n_bits)
            ctx.expect("roundtrip-eval", ok and numpy.allclose(value, expected, atol=1e-7),
                       reason=why, imported=lambda: safe_repr(back, 2500),
                       got=lambda: numpy.round(value, 5).tolist(),
                       expected=lambda: numpy.round(expected, 5).tolist(),
                       tket=lambda: repr(tk), export_agrees=bool(same),
                       **dict(witness, **facts))
        except Exception as err:
            ctx.fail("roundtrip-eval", exception=type(err).__name__,
                     message=str(err)[:300], where="eval of from_tk(to_tk(c))",
                     imported=lambda: safe_repr(back, 2500), **dict(witness, **facts))


def up_to_axis_permutation(got, expected):
    import itertools
    n = got.ndim
    if got.shape != expected.shape or n > 5 or got.shape == (1,):
        return None
    return any(numpy.allclose(numpy.transpose(got, p), expected, atol=1e-7)
               for p in itertools.permutations(range(n)))


# -- import --------------------------------------------------------------------------

def rand_tket(rng):
    pytket = _ENV["pytket"]
    nq, nb = rng.randint(1, 3), rng.randint(0, 2)
    if rng.random() < .3:          # a gap of two wires needs four qubits
        nq, nb = 4, rng.randint(0, 1)
    t = pytket.Circuit(nq, nb)
    ops = []
    for _ in range(rng.randint(1, 8)):
        r = rng.random()
        q = rng.randrange(nq)
        if r < .45:
            name = rng.choice(["H", "S", "T", "X", "Y", "Z"])
            getattr(t, name)(q)
        elif r < .6:
            name = rng.choice(["Rx", "Rz"])
            getattr(t, name)(rng.choice([0.5, 0.25, 1.0, 0.6, -0.3, 1.5]), q)
        elif r < .8 and nq >= 2:
            a, b = rng.sample(range(nq), 2)
            name = rng.choice(["CX", "CZ", "CRz"])
            if name == "CRz":
                t.CRz(rng.choice([0.5, 0.25, 0.6, -1.2]), a, b)
            else:
                getattr(t, name)(a, b)
        elif r < .95 and nb:
            name = "Measure"
            t.Measure(q, rng.randrange(nb))
        elif nq >= 2 and rng.random() < .3:
            a, b = rng.sample(range(nq), 2)
            name = "SWAP"
            t.SWAP(a, b)
        else:
            name = "H"
            t.H(q)
        ops.append(name)
    return t, nq, nb, ops


def import_case(rng, ctx):
    c = _ENV["circuit"]
    t, nq, nb, ops = rand_tket(rng)
    witness = dict(tket=lambda: repr(t.get_commands())[:1500], n_qubits=nq, n_bits=nb)
    try:
        d = c.Circuit.from_tk(t)
    except NotImplementedError:
        ctx.expect("refusal-only-if-unsupported", "SWAP" in ops, where="from_tk",
                   **witness)
        ctx.refuse("from_tk:NotImplementedError")
        return
    except Exception as err:
        ctx.fail("import-eval-matches-tket", exception=type(err).__name__,
                 message=str(err)[:300], where="from_tk", **witness)
        return
    ok, why = well_typed(d)
    dist = tk_sim.distribution(t)
    expected = numpy.zeros((2,) * nb or (1,))
    for bits, p in dist.items():
        expected[bits if nb else (0,)] += p
    try:
        value = as_array(d.eval(mixed=True), nb).real
    except Exception as err:
        ctx.fail("import-eval-matches-tket", exception=type(err).__name__,
                 message=str(err)[:300], where="eval of the imported circuit",
                 imported=lambda: safe_repr(d, 2500), **witness)
        return
    ctx.expect("import-eval-matches-tket",
               ok and len(d.dom) == 0 and len(d.cod) == nb
               and numpy.allclose(value, expected, atol=1e-7), reason=why,
               imported=lambda: safe_repr(d, 2500),
               got=lambda: numpy.round(value, 5).tolist(),
               expected=lambda: numpy.round(expected, 5).tolist(), **witness)
    if "Measure" in ops and nq >= 2:
        ctx.mark(repr(t.get_commands()))


def run_case(rng, ctx):
    if ctx.index % 4 == 3:
        return import_case(rng, ctx)
    return export_case(rng, ctx)
