"""
C07 - snake removal is sound for rigid diagrams.

Monitors
  step-legal            trace monitor over rigid.Diagram.normalize(): every item is
                        either the move of ONE box along a path of model-legal
                        adjacent exchanges, or the deletion of an adjacent
                        (cap, cup) pair that the harness's own snake predicate
                        accepts on the predecessor
  step-sound            same dom/cod, well-typed, same matrix under a seeded
                        generic rigid interpretation (cups/caps = identity tensors)
  no-snake-left         independent detector on the final result
  only-NotImplementedError   and only when the residue is disconnected
  normal-form-agrees    normal_form() == last item of normalize()
"""
import itertools

from verif.gen import kits
from verif.instrument import safe_repr, fingerprint
from verif.models import meval, wiring, struct
from verif.models import interchange_model as im
from verif.models.typing import well_typed, tykey
from verif.props.c05 import model_path

ID = "C07"
TECHNIQUE = ("runtime monitoring: trace monitor over the rewrite steps (model of "
             "legal exchanges + own snake predicate), generic tensor semantics "
             "on every step, independent yankable-pair detector on the result")
RULE = ("case = rigid diagram over names x, y, z with winding numbers -3..3 "
        "(one case in six over the self-adjoint type PRO(1), where x.l == x) "
        "built from random boxes and decorated with left/right snakes at random "
        "wires and depths, nested snakes, double transposes of boxes, "
        "cap-then-cup loops, cap/cup pairs whose adjoints do NOT match, then "
        "scrambled by 0-15 legal interchanges so that obstructions interleave "
        "on both sides.  Non-trivial = at least one snake was removed after "
        "at least one obstruction was moved; distinct by diagram repr."
        "  Also: yielded steps re-checked after the trace; normal form fed back in.")
SIZES = {"quick": (16, 110), "thorough": (16, 3200)}
TIMEOUT = {"quick": 900, "thorough": 7200}
COVER = {"discopy.rewriting:snake_removal": 0.9,
         "discopy.rewriting:snake_removal.follow_wire": 0.95,
         "discopy.rewriting:snake_removal.find_snake": 0.95,
         "discopy.rewriting:snake_removal.unsnake": 0.95}
MIN_EVALS = {"quick": {"step-sound": 15000, "step-legal": 15000,
                       "no-snake-left": 1200, "snakes_removed": 1500,
                       "obstruction_moves": 2500},
             "thorough": {"step-sound": 400000}}
ASSUMPTIONS = [
    "denotation = matrices under a seeded generic interpretation: dimension 2 "
    "or 3 per atomic type NAME (shared by all its adjoints), identity tensors "
    "for all four flavours of cups and caps, generic complex arrays for boxes",
    "disconnected = the box graph (box-to-box wires) has more than one component"]
STEP_CAP = 600
_KIT = None
_PRO_KIT = None


class ProKit(kits.RigidKit):
    """ rigid diagrams over PRO types: every wire is its own adjoint. """
    name = "rigid-pro"

    def atom(self, rng):
        return self.mod.PRO(1)

    def unit(self):
        return self.mod.PRO(0)

    def data(self, rng):
        return None


def setup(ctx):
    global _KIT, _PRO_KIT
    _KIT = kits.RigidKit(zmax=2, structural=False)
    _PRO_KIT = ProKit(zmax=0, structural=False)


# -- generator ---------------------------------------------------------------------

def snake(mod, t, left, matching=True):
    """ A zig-zag on the atomic type t (t -> t when matching). """
    if left:
        b = t.r if matching or True else t
        c = t if matching else t.r.r
        return mod.Id(t) @ mod.Cap(t.r, c) >> mod.Cup(t, t.r) @ mod.Id(c), c
    a = t if matching else t.l.l
    return mod.Cap(a, t.l) @ mod.Id(t) >> mod.Id(a) @ mod.Cup(t.l, t), a


def insert_on_wire(rng, mod, d, piece_factory):
    """ d[:k] >> Id(l) @ piece(t) @ Id(r) >> d[k:] for a random wire. """
    k = rng.randint(0, len(d))
    top, bottom = d[:k], d[k:]
    scan = top.cod
    if not len(scan):
        return d
    w = rng.randrange(len(scan))
    piece = piece_factory(scan[w:w + 1])
    if piece is None:
        return d
    return top >> mod.Id(scan[:w]) @ piece @ mod.Id(scan[w + 1:]) >> bottom


def decorate(rng, kit, d, log):
    mod = kit.mod
    choice = rng.randrange(9)
    if choice <= 3:
        left = rng.random() < .5
        log.append("left-snake" if left else "right-snake")
        return insert_on_wire(rng, mod, d, lambda t: snake(mod, t, left)[0])
    if choice == 4 and len(d):
        k = rng.randrange(len(d))
        box = d.boxes[k]
        if len(box.dom) + len(box.cod) <= 3 and type(box).__name__ == "Box":
            first = rng.random() < .5
            twice = box.transpose(left=first).transpose(left=not first)
            l, _, r = d.layers[k]
            log.append("double-transpose")
            return d[:k] >> mod.Id(l) @ twice @ mod.Id(r) >> d[k + 1:]
        return d
    if choice == 5:
        log.append("loop")

        def loop(t):
            return mod.Id(t) @ (mod.Cap(t, t.l) >> mod.Cup(t, t.l))
        return insert_on_wire(rng, mod, d, loop)
    if choice == 6:
        left = rng.random() < .5
        log.append("mismatched-left" if left else "mismatched-right")

        def mismatched(t):
            piece, end = snake(mod, t, left, matching=False)
            fixer = mod.Box("fix", end, t)
            return piece >> fixer
        return insert_on_wire(rng, mod, d, mismatched)
    if choice == 7:
        t = kit.rand_ty(rng, rng.randint(1, 2))
        log.append("transpose-of-identity")
        piece = mod.Id(t).transpose(left=rng.random() < .5)
        # t.r.. -> t.r..: put it beside the diagram
        return (piece @ d) if rng.random() < .5 else (d @ piece)
    log.append("cup-cap-pair")
    t = kit.rand_ty(rng, 1)
    pair = mod.Cap(t, t.l) >> mod.Id(t) @ mod.Box("u", t.l, t.l)\
        >> mod.Cup(t, t.l)
    return d @ pair if rng.random() < .5 else pair @ d


def decorate_pro(rng, kit, d, log):
    """ Decorations over the self-adjoint type PRO(1) (x.l == x == x.r). """
    mod = kit.mod
    x = mod.PRO(1)
    choice = rng.randrange(6)
    if choice <= 2:
        left = rng.random() < .5
        log.append("pro-left-snake" if left else "pro-right-snake")
        return insert_on_wire(rng, mod, d, lambda t: snake(mod, x, left)[0])
    if choice == 3:
        log.append("pro-loop")
        return insert_on_wire(
            rng, mod, d, lambda t: mod.Id(x) @ (mod.Cap(x, x) >> mod.Cup(x, x)))
    if choice == 4:
        log.append("pro-traced-box")
        u = mod.Box("u", x, x)
        side = rng.random() < .5
        inner = (mod.Id(x) @ u) if side else (u @ mod.Id(x))
        return insert_on_wire(
            rng, mod, d,
            lambda t: mod.Id(x) @ (mod.Cap(x, x) >> inner >> mod.Cup(x, x)))
    log.append("pro-cap-box-cup")
    v = mod.Box("v", x @ x, x @ x)
    piece = mod.Cap(x, x) >> v >> mod.Cup(x, x)
    return d @ piece if rng.random() < .5 else piece @ d


def scramble(rng, d, moves):
    from discopy.rewriting import InterchangerError
    done = 0
    for _ in range(moves):
        if len(d) < 2:
            break
        i = rng.randrange(len(d) - 1)
        try:
            d = d.interchange(i, i + 1, left=rng.random() < .5)
            done += 1
        except InterchangerError:
            pass
    return d, done


# -- oracles -----------------------------------------------------------------------

def kind(box):
    name = type(box).__name__
    return name if name in ("Cup", "Cap") and hasattr(box, "left") else "Box"


def is_snake_at(prev, c):
    """ Own predicate: layers c (Cap) and c+1 (Cup) of `prev` form a zig-zag. """
    cap, cup = prev.boxes[c], prev.boxes[c + 1]
    if kind(cap) != "Cap" or kind(cup) != "Cup":
        return False
    ocap, ocup = prev.offsets[c], prev.offsets[c + 1]
    if ocup == ocap - 1:       # left snake: through wire, then the cap
        return tykey(cup.left) == tykey(cap.right)
    if ocup == ocap + 1:       # right snake: cap, then the through wire
        return tykey(cap.left) == tykey(cup.right)
    return False


def explain_step(prev, item):
    """ "" if `item` is a legal successor of `prev`, else a reason. """
    n, m = len(prev), len(item)
    pboxes, iboxes = prev.boxes, item.boxes
    if m == n - 2:
        for c in range(n - 1):
            if all(iboxes[k] is pboxes[k] or iboxes[k] == pboxes[k] for k in range(c))\
                    and all(iboxes[k] is pboxes[k + 2] or iboxes[k] == pboxes[k + 2]
                            for k in range(c, m))\
                    and item.offsets == prev.offsets[:c] + prev.offsets[c + 2:]:
                if is_snake_at(prev, c):
                    return "", "snake", c
        return "two layers disappeared but they are not an adjacent snake", None, None
    if m != n:
        return "number of boxes changed by {}".format(m - n), None, None
    same = [iboxes[k] is pboxes[k] for k in range(n)]
    if all(same) and item.offsets == prev.offsets:
        return "", "identity", None
    lo = same.index(False) if False in same else 0
    hi = n - 1 - same[::-1].index(False) if False in same else n - 1
    layers, arity = im.model_of(prev)
    for i, j in ((lo, hi), (hi, lo)):
        if i == j:
            continue
        order = list(range(n))
        order.insert(j, order.pop(i))
        if not all(iboxes[k] is pboxes[order[k]] or iboxes[k] == pboxes[order[k]]
                   for k in range(n)):
            continue
        states, _, blocked_all = model_path(layers, arity, i, j)
        got = tuple((order[k], off) for k, off in enumerate(item.offsets))
        if not blocked_all and got in states:
            return "", "move", abs(i - j)
    return "not the move of one box along legal adjacent exchanges", None, None


def snakes_left(d):
    """ Independent detector: (cap index, cup index) of yankable pairs. """
    found = []
    boxes = d.boxes
    for source, target in wiring.wiring(d):
        if source[0] != "cod" or target[0] != "dom":
            continue
        cap, cup = boxes[source[1]], boxes[target[1]]
        if kind(cap) != "Cap" or kind(cup) != "Cup":
            continue
        if source[2] == 0 and target[2] == 1\
                and tykey(cap.right) == tykey(cup.left):
            found.append((source[1], target[1], "left"))
        if source[2] == 1 and target[2] == 0\
                and tykey(cap.left) == tykey(cup.right):
            found.append((source[1], target[1], "right"))
    return found


def run_case(rng, ctx):
    pro = ctx.index % 6 == 5
    kit = _PRO_KIT if pro else _KIT
    mod = kit.mod
    base = kit.rand_diagram(rng, rng.randint(0, 4), width=rng.randint(1, 3), raw=False)
    log, d = [], base
    for _ in range(rng.choice([1, 1, 2, 2, 3])):
        d = decorate_pro(rng, kit, d, log) if pro else decorate(rng, kit, d, log)
        if len(d) > 22:
            break
    width = max([len(d.dom)] + [len(l) + len(b.cod) + len(r) for l, b, r in d.layers])
    if width > 9 or len(d) > 26:
        ctx.count("skipped_too_large")
        return
    d, scrambled = scramble(rng, d, rng.randint(0, 15))
    interp = meval.Interp("snake{}".format(ctx.index),
                          dims=(2, 3) if width <= 5 else (2,))
    reference = meval.evaluate(d, interp, max_size=3 ** 6 + 1)
    key_before = repr(struct.key(d))
    witness = dict(diagram=lambda: safe_repr(d, 3000), offsets=d.offsets,
                   decorations=log)
    prev, steps, removed, moves, last = d, 0, 0, 0, d
    failure = None
    yielded = []
    try:
        for item in d.normalize():
            steps += 1
            if steps > STEP_CAP:
                break
            yielded.append((item, fingerprint(item)))
            ok, why = well_typed(item)
            good = ok and tykey(item.dom) == tykey(d.dom)\
                and tykey(item.cod) == tykey(d.cod)
            if good and reference is not None:
                value = meval.evaluate(item, interp, max_size=3 ** 6 + 1)
                same = meval.close(reference, value)
                if same is False:
                    good, why = False, "different denotation"
            ctx.expect("step-sound", good, reason=why, step_number=steps,
                       predecessor=lambda: safe_repr(prev, 2000),
                       predecessor_offsets=lambda: prev.offsets,
                       step=lambda: safe_repr(item, 2000),
                       step_offsets=lambda: item.offsets, **witness)
            if not ok:
                failure = "ill-typed step"
                break
            reason, what, size = explain_step(prev, item)
            ctx.expect("step-legal", not reason, reason=reason, step_number=steps,
                       predecessor=lambda: safe_repr(prev, 2000),
                       predecessor_offsets=lambda: prev.offsets,
                       step=lambda: safe_repr(item, 2000),
                       step_offsets=lambda: item.offsets, **witness)
            if reason:
                failure = reason
                break
            if what == "snake":
                removed += 1
            elif what == "move":
                moves += 1
            prev = last = item
    except Exception as err:
        connected = wiring.is_connected(last)
        ctx.fail("only-NotImplementedError", exception=type(err).__name__,
                 message=str(err)[:300], while_iterating="normalize()",
                 residue_connected=connected,
                 last=lambda: safe_repr(last, 2000), **witness)
        failure = "exception"
    # prefixes of the trace: earlier steps are still the values that were judged
    for k, (item, before) in enumerate(yielded):
        now = fingerprint(item)
        ctx.expect("step-sound", now == before, step_number=k + 1,
                   reason="a step yielded earlier changed after the generator "
                   "advanced", offsets_when_yielded=list(before[0]),
                   offsets_now=list(now[0]), **witness)
        if now != before:
            break
    ctx.count("snakes_removed", removed)
    ctx.count("obstruction_moves", moves)
    connected = wiring.is_connected(last)
    if failure is None and (steps <= STEP_CAP):
        pairs = snakes_left(last)
        ctx.expect("no-snake-left", not pairs, pairs=pairs,
                   result=lambda: safe_repr(last, 2500),
                   result_offsets=lambda: last.offsets, **witness)
    elif steps > STEP_CAP:
        if connected:
            ctx.fail("only-NotImplementedError", exception="none: step cap",
                     message="more than {} steps on a connected residue".format(STEP_CAP),
                     **witness)
        else:
            ctx.count("disconnected_residue_hit_step_cap")
    # normal_form(): value or NotImplementedError on a disconnected residue
    try:
        nf = d.normal_form()
        ctx.ok("only-NotImplementedError")
        if failure is None and steps <= STEP_CAP:
            ctx.expect("normal-form-agrees", nf == last,
                       normal_form=lambda: safe_repr(nf, 2000),
                       last_step=lambda: safe_repr(last, 2000), **witness)
            # the returned object fed back in: nothing left to do
            again = nf.normal_form()
            ctx.expect("normal-form-agrees", again == nf
                       and not list(itertools.islice(nf.normalize(), 1)),
                       where="normal form fed back in",
                       normal_form=lambda: safe_repr(nf, 2000),
                       again=lambda: safe_repr(again, 2000), **witness)
    except NotImplementedError:
        ctx.expect("only-NotImplementedError", not connected,
                   exception="NotImplementedError",
                   message="raised although the snake-free residue is connected",
                   residue=lambda: safe_repr(last, 2000), **witness)
        ctx.refuse("NotImplementedError-disconnected-residue")
    except Exception as err:
        cups = [(safe_repr(b, 80), o) for b, o in zip(last.boxes, last.offsets)
                if kind(b) != "Box"]
        ctx.fail("only-NotImplementedError", exception=type(err).__name__,
                 message=str(err)[:300], while_iterating="normal_form()",
                 mismatched_decoration=any(x.startswith("mismatched") for x in log),
                 cups_and_caps_of_last=cups, **witness)
    ctx.expect("operands-unchanged", repr(struct.key(d)) == key_before,
               diagram=lambda: safe_repr(d, 2000), offsets=lambda: d.offsets)
    if removed and moves:
        ctx.mark(safe_repr(d, 1500))
    if ctx.index < 25:
        ctx.sample(diagram=safe_repr(d, 500), decorations=log, scrambled=scrambled,
                   steps=steps, snakes_removed=removed, obstruction_moves=moves)
