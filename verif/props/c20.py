"""
C20 - the drawing layout is a faithful planar embedding of the diagram.

Monitors (the first six are evaluated at every height of every layout):
  node-census                      one node per input, output, box, box port
  edges-equal-wiring               graph edges == independent wire-following
  open-wires-strictly-increasing   at every height, before/at/after each box
  interlayer-wires-vertical        every wire between two layers
  edges-point-downwards            every edge, and the stacking of each layer
  box-strictly-between-neighbours  centre and port span of every box
  open-bubbles-structure           open_bubbles() == the documented rewriting
  diagram2nx-returned              no exception from diagram2nx
  tikz-renders / tikz-well-formed / tikz-draws-every-wire
  matplotlib-renders               (about 10 % of the cases)
  equation-renders                 sums / equations on the TikZ back-end
  diagramize-replays-wiring        function body replaying the wiring in
                                   planar order returns an equal diagram

Known finding (known_findings/C20.json): a Bubble whose dom (cod) has the
length of inside.dom (inside.cod) but other objects gets a position-less
phantom port node from diagram2nx.add_box and cannot be drawn (KeyError).
"""
import atexit
import os
import tempfile

from verif.gen import kits
from verif.instrument import safe_repr
from verif.models import layout

ID = "C20"
RULE = ("case kinds by index: hostile monoidal diagrams (width 0-6, depth "
        "0-10; themes: states at offset 0/middle/far right, scalars, effects, "
        "wide boxes above narrow gaps and vice versa, equal-arity boxes, "
        "repeated left/right make-space shifts), kit diagrams (monoidal, "
        "rigid with cups/caps/swaps, circuits, ZX, tensor), bubbles (monoidal "
        "and tensor, nested, with and without straight wires), sums and "
        "equations.  Every layout is judged at every height; every case is "
        "rendered to TikZ, ~10 % to matplotlib; bubble-free Ty-typed diagrams "
        "are replayed through diagramize.  Non-trivial = >=2 boxes; distinct "
        "by class, offsets and box arities."
        "  Also: one diagramize signature declaring several functions; draw, restyle one box as a spider, draw again against a styled twin.")
SIZES = {"quick": (16, 260), "thorough": (16, 5400)}
TIMEOUT = {"quick": 600, "thorough": 5400}
COVER = {
    "discopy.drawing:diagram2nx": 0.95,
    "discopy.drawing:diagram2nx.make_space": 0.99,
    "discopy.drawing:diagram2nx.add_box": 0.99,
    "discopy.drawing:nx2diagram": 0.95,
    "discopy.drawing:diagramize": 0.95,
    "discopy.drawing:diagramize.decorator": 0.85,
    "discopy.drawing:diagramize.decorator.apply": 0.95,
    "discopy.drawing:draw": 0.95,
    "discopy.drawing:draw.draw_wires": 0.95,
    "discopy.drawing:draw.scale_and_pad": 0.95,
    "discopy.drawing:draw_box": 0.95,
    "discopy.drawing:equation": 0.95,
    "discopy.drawing:TikzBackend.add_node": 0.95,
    "discopy.drawing:TikzBackend.draw_wire": 0.95,
    "discopy.drawing:TikzBackend.draw_polygon": 0.9,
    "discopy.drawing:TikzBackend.draw_text": 0.95,
    "discopy.drawing:TikzBackend.draw_node": 0.95,
    "discopy.drawing:TikzBackend.draw_spiders": 0.85,
    "discopy.drawing:TikzBackend.output": 0.85,
    "discopy.drawing:MatBackend.draw_wire": 0.95,
    "discopy.drawing:MatBackend.draw_polygon": 0.95,
    "discopy.drawing:MatBackend.draw_spiders": 0.95,
    "discopy.drawing:MatBackend.output": 0.8,
    "discopy.quantum.drawing:draw_discard": 0.95,
    "discopy.quantum.drawing:draw_measure": 0.95,
    "discopy.quantum.drawing:draw_brakets": 0.95,
    "discopy.quantum.drawing:draw_controlled_gate": 0.95,
    "discopy.monoidal:Diagram.open_bubbles": 0.95,
    "discopy.monoidal:Diagram.open_bubbles.OpenBubbles.__call__": 0.95,
}
MIN_EVALS = {
    "quick": {"node-census": 8000, "edges-equal-wiring": 4000,
              "open-wires-strictly-increasing": 55000,
              "box-strictly-between-neighbours": 17000,
              "edges-point-downwards": 90000,
              "interlayer-wires-vertical": 32000, "tikz-renders": 3300,
              "tikz-draws-every-wire": 3300, "matplotlib-renders": 250,
              "diagramize-replays-wiring": 2500, "equation-renders": 300,
              "open-bubbles-structure": 300},
    "thorough": {"node-census": 170000, "edges-equal-wiring": 85000,
                 "open-wires-strictly-increasing": 1200000,
                 "box-strictly-between-neighbours": 370000,
                 "interlayer-wires-vertical": 700000, "tikz-renders": 70000,
                 "tikz-draws-every-wire": 70000, "matplotlib-renders": 6000,
                 "diagramize-replays-wiring": 52000, "equation-renders": 6000,
                 "open-bubbles-structure": 6000}}
ASSUMPTIONS = [
    "the layout is judged on the final (graph, positions) of diagram2nx",
    "a diagram with no wire and no box, and a sum with no term, are outside "
    "the statement and are not rendered",
    "bubbles: the expected nodes/edges follow the documented open_bubbles "
    "rewriting (one extra wire each side; straight-through edges exactly when "
    "the lengths agree), computed independently; open_bubbles itself is "
    "compared with that reading",
    "diagramize replays are restricted to bubble-free diagrams whose types "
    "are rebuilt by type(dom)(*objects) (monoidal, rigid, circuit types); "
    "input-less boxes are called with offset=, as documented",
    "TikZ: a node id defined twice resolves to its last definition",
    "the cod ports of a box are not required to be centred under the box"]
TECHNIQUE = ("runtime monitoring: planarity predicates on every computed "
             "layout, both back-ends run, diagramize round trip")

_S = {}


def retyped_straight_bubbles(diagram):
    """
    Bubbles whose dom (cod) has the length of the inside's dom (cod) but other
    objects: the shape behind the known finding C20/straight-bubble-retyped.
    """
    found = []
    for box in getattr(diagram, "boxes", []):
        if not layout.is_bubble(box):
            continue
        inside = box.inside
        for side, outer, inner in (("dom", box.dom, inside.dom),
                                   ("cod", box.cod, inside.cod)):
            if len(outer) == len(inner) and any(
                    a != b for a, b in zip(outer, inner)):
                found.append(side)
        found += retyped_straight_bubbles(inside)
    return found


def _phantom_port_of_retyped_bubble(monitor, witness):
    """ Mechanism: diagram2nx names the far end of a straight bubble wire with
    the object of the *other* side, creating a node that has no position. """
    if not witness.get("retyped_straight_bubble"):
        return False
    if monitor in ("tikz-renders", "matplotlib-renders"):
        return witness.get("exception") == "KeyError"\
            and str(witness.get("message", "")).startswith(
                ("Node('cod'", "Node('dom'"))
    if monitor == "node-census":
        detail = witness.get("detail", {})
        phantom = [tuple(k) for k in detail.get("without_position") or []]
        steps = witness.get("skeleton", {}).get("steps", [])
        if not phantom or detail.get("missing") or detail.get("extra")\
                or sorted(phantom) != sorted(
                    tuple(k) for k in detail.get("duplicates") or []):
            return False
        for kind, depth, i in phantom:
            wanted = {"cod": "open*", "dom": "close*"}.get(kind)
            if wanted is None or depth >= len(steps)\
                    or steps[depth][0] != wanted:
                return False
        return True
    return False


PREDICATES = {
    "phantom_port_of_retyped_bubble": _phantom_port_of_retyped_bubble}


def setup(ctx):
    import matplotlib
    matplotlib.use("Agg")
    import matplotlib.pyplot as plt
    from discopy import monoidal, rigid, tensor, drawing
    from discopy.quantum import circuit, zx
    tmp = tempfile.TemporaryDirectory(prefix="verif-c20-")
    atexit.register(tmp.cleanup)
    _S.update(
        plt=plt, monoidal=monoidal, rigid=rigid, tensor=tensor,
        drawing=drawing, circuit=circuit, zx=zx, tmp=tmp,
        kits={"monoidal": kits.MonoidalKit(), "rigid": kits.RigidKit(),
              "circuit": kits.CircuitKit(), "zx": kits.ZXKit(),
              "tensor": kits.TensorKit(),
              "pure": kits.CircuitKit(pure=True)})


def tmp_path(name):
    return os.path.join(_S["tmp"].name, name)


# -- generators -------------------------------------------------------------------

ATOMS = ["x", "y", "z", "w"]
THEMES = ["mixed", "mixed", "states", "wide-narrow", "same-arity", "scalars",
          "left-right", "effects"]


def hostile_monoidal(rng):
    """ Monoidal diagram of width 0-6 and depth 0-10 following a theme. """
    m = _S["monoidal"]
    theme = rng.choice(THEMES)
    width = rng.randint(0, 6)
    depth = rng.choice([0, 1, 2, 3, 4, 5, 6, 7, 8, 9, 10])
    scan = [rng.choice(ATOMS) for _ in range(width)]
    dom = list(scan)
    boxes, offsets = [], []
    # "any width": now and then the first box fans out into 11-14 wires (port
    # indices with two digits), followed by a few boxes on those wires
    fan_out = depth >= 2 and rng.random() < .08
    if fan_out:
        depth = min(depth, 5)
    for k in range(depth):
        w = len(scan)
        shape = pick_shape(rng, theme, w, k)
        n_in, n_out, off = place(rng, shape, w)
        if fan_out and k == 0:
            n_in = rng.randint(0, min(w, 2))
            n_out = rng.randint(11, 14)
            off = rng.randint(0, w - n_in)
        new = [rng.choice(ATOMS) for _ in range(n_out)]
        name = rng.choice(kits.LETTERS)
        box_dom, box_cod = m.Ty(*scan[off:off + n_in]), m.Ty(*new)
        if rng.random() < .2:
            box = m.Box(name, box_cod, box_dom).dagger()
        else:
            box = m.Box(name, box_dom, box_cod)
        boxes.append(box)
        offsets.append(off)
        scan[off:off + n_in] = new
    if rng.random() < .5:
        diagram = m.Diagram(m.Ty(*dom), m.Ty(*scan), boxes, offsets)
    else:
        diagram, cur = m.Id(m.Ty(*dom)), m.Ty(*dom)
        for box, off in zip(boxes, offsets):
            diagram = diagram >> m.Id(cur[:off]) @ box\
                @ m.Id(cur[off + len(box.dom):])
            cur = diagram.cod
    return diagram, theme + ("+fan-out" if fan_out else "")


def pick_shape(rng, theme, w, k):
    if w >= 7:
        return rng.choice(["reduce", "effect", "effect", "narrow-mid"])
    menu = {
        "mixed": ["state", "scalar", "effect", "same", "expand", "reduce",
                  "generic", "generic", "state-wide"],
        "states": ["state-left", "state-right", "state-mid", "state-mid",
                   "state", "effect", "same"],
        "wide-narrow": ["expand", "narrow-mid", "expand-mid", "state-mid",
                        "reduce", "effect", "expand-wide", "state-wide"],
        "same-arity": ["same", "same", "same", "state", "effect", "expand"],
        "scalars": ["scalar", "scalar", "state", "effect", "scalar-mid"],
        "left-right": ["state-left", "state-right", "state-left",
                       "state-right", "state-mid", "expand-mid", "effect",
                       "state-wide"],
        "effects": ["effect", "effect", "state", "reduce", "expand"],
    }[theme]
    return rng.choice(menu)


def place(rng, shape, w):
    """ Returns (n_in, n_out, offset) of a layer on `w` wires. """
    mid = rng.randint(1, w - 1) if w >= 2 else rng.randint(0, w)
    if shape == "state":
        return 0, rng.randint(1, 4), rng.randint(0, w)
    if shape == "state-left":
        return 0, rng.randint(1, 4), 0
    if shape == "state-right":
        return 0, rng.randint(1, 4), w
    if shape == "state-mid":
        return 0, rng.randint(1, 4), mid
    if shape == "state-wide":
        return 0, rng.randint(5, 7), rng.choice([0, mid, mid, w])
    if shape == "scalar":
        return 0, 0, rng.randint(0, w)
    if shape == "scalar-mid":
        return 0, 0, mid
    if w == 0:
        return 0, rng.randint(0, 3), 0
    if shape == "effect":
        n = rng.randint(1, min(3, w))
        return n, 0, rng.randint(0, w - n)
    if shape == "same":
        n = rng.randint(1, min(3, w))
        return n, n, rng.randint(0, w - n)
    if shape == "expand":
        n = rng.randint(1, min(2, w))
        return n, rng.randint(n + 1, 5), rng.randint(0, w - n)
    if shape == "expand-mid":
        return 1, rng.randint(3, 5), min(mid, w - 1)
    if shape == "expand-wide":
        return 1, rng.randint(6, 7), min(mid, w - 1)
    if shape == "narrow-mid":
        return 1, rng.randint(0, 1), min(mid, w - 1)
    if shape == "reduce":
        n = rng.randint(min(2, w), min(4, w))
        return n, rng.randint(0, 1), rng.randint(0, w - n)
    n = rng.randint(0, min(3, w))
    return n, rng.randint(0, 3), rng.randint(0, w - n)


def kit_diagram(rng, name):
    kit = _S["kits"][name]
    nboxes = rng.randint(0, 10)
    width = rng.randint(0, 6)
    if name in ("circuit", "pure"):
        dom = kit.rand_ty(rng, rng.randint(0, 5))
        return kit.rand_diagram(rng, rng.randint(0, 9), dom=dom, width=5)
    if name == "tensor":
        return kit.rand_diagram(rng, rng.randint(0, 6), width=rng.randint(0, 4))
    return kit.rand_diagram(rng, nboxes, width=width)


def bubbled(rng):
    """ Diagrams with (nested) bubbles, monoidal or tensor. """
    if rng.random() < .35:
        t = _S["tensor"]
        kit = _S["kits"]["tensor"]
        inner = kit.rand_diagram(rng, rng.randint(0, 3), width=2)
        bubble = inner.bubble(func=lambda x: x, drawing_name=rng.choice(
            ["", "f", "sq"]))
        after = kit.rand_diagram(rng, rng.randint(0, 2), dom=bubble.cod)
        diagram = bubble >> after
        if rng.random() < .4:
            diagram = diagram.bubble(func=lambda x: x)
        if rng.random() < .4:
            extra = kit.rand_ty(rng, 1)
            diagram = t.Id(extra) @ diagram
        return diagram, "tensor-bubble"
    m = _S["monoidal"]
    kit = _S["kits"]["monoidal"]

    def wrap(inner):
        r = rng.random()
        if r < .5:
            return m.Bubble(inner, drawing_name=rng.choice(["", "b", "not"]))
        # dom / cod of a different length than the inside: no straight wires
        dom = inner.dom if rng.random() < .4 else kit.rand_ty(
            rng, rng.randint(0, 3))
        cod = inner.cod if rng.random() < .4 else kit.rand_ty(
            rng, rng.randint(0, 3))
        return m.Bubble(inner, dom, cod)
    inner = kit.rand_diagram(rng, rng.randint(0, 3), width=2)
    bubble = wrap(inner)
    if rng.random() < .4:
        mid = kit.rand_diagram(rng, rng.randint(0, 2), dom=bubble.cod, width=2)
        bubble = wrap(bubble >> mid)
    left, right = kit.rand_ty(rng, rng.randint(0, 2)), kit.rand_ty(
        rng, rng.randint(0, 2))
    diagram = m.Id(left) @ bubble @ m.Id(right)
    before = kit.rand_diagram(rng, rng.randint(0, 2), width=2)
    if rng.random() < .5 and len(before.cod) <= 3:
        diagram = before @ m.Id(diagram.dom) >> m.Id(before.cod) @ diagram
    after = kit.rand_diagram(rng, rng.randint(0, 3), dom=diagram.cod, width=3)
    return diagram >> after, "monoidal-bubble"


# -- monitors -----------------------------------------------------------------------

def has_wire_or_box(diagram):
    return bool(len(diagram.dom) or len(diagram.cod) or len(diagram.boxes))


def sink(ctx, report, **witness):
    for predicate, (count, bad) in report.items.items():
        if bad is None:
            ctx.ok(predicate, count)
        else:
            if count > 1:
                ctx.ok(predicate, count - 1)
            ctx.fail(predicate, detail=bad, **witness)


def check_open_bubbles(ctx, diagram, skel, witness):
    try:
        opened = diagram.open_bubbles()
    except Exception as err:
        ctx.fail("open-bubbles-structure", exception=type(err).__name__,
                 message=str(err)[:300], **witness)
        return
    got = [(getattr(b, "name", None), len(b.dom), len(b.cod), off,
            bool(getattr(b, "bubble_opening", False)),
            bool(getattr(b, "bubble_closing", False)))
           for b, off in zip(opened.boxes, opened.offsets)]
    expected = [(s.name, s.n_in, s.n_out, s.off,
                 s.kind == "open" and s.straight,
                 s.kind == "close" and s.straight) for s in skel.steps]
    ctx.expect("open-bubbles-structure",
               got == expected and len(opened.dom) == skel.n_dom
               and len(opened.cod) == skel.n_cod,
               got=got[:12], expected=expected[:12], **witness)


def examine_layout(ctx, diagram, cls, witness):
    """ diagram2nx + every planarity predicate.  Returns (graph, pos, skel). """
    drawing = _S["drawing"]
    skel = layout.skeleton_of(diagram)
    if not layout.well_formed(skel):
        ctx.count("skeleton_not_a_diagram")     # generator produced junk
        return None
    if any(layout.is_bubble(b) for b in diagram.boxes):
        check_open_bubbles(ctx, diagram, skel, witness)
    try:
        graph, pos = drawing.diagram2nx(diagram)
    except Exception as err:
        ctx.fail("diagram2nx-returned", exception=type(err).__name__,
                 message=str(err)[:300], **witness)
        return None
    ctx.ok("diagram2nx-returned")
    report = layout.check_layout(skel, graph, pos)
    sink(ctx, report, skeleton=lambda: skel.show(), **witness)
    ctx.count("heights_checked", 1 + 2 * len(skel.steps))
    ctx.count("layouts")
    return graph, pos, skel


def expected_tikz_wires(graph, pos):
    """ Wires the picture must contain: edges not hidden inside a box. """
    def inside_a_box(node):
        return node.kind == "box"\
            and not getattr(node.box, "draw_as_wires", False)\
            and not getattr(node.box, "draw_as_spider", False)
    if not pos:
        return []
    min_x = min(x for x, _ in pos.values())
    min_y = min(y for _, y in pos.values())
    wires = []
    for source, target in graph.edges:
        if inside_a_box(source) or inside_a_box(target):
            continue
        (x0, y0), (x1, y1) = pos[source], pos[target]
        wires.append(((x0 - min_x, y0 - min_y), (x1 - min_x, y1 - min_y)))
    return wires


def close(p, q):
    return abs(p[0] - q[0]) <= 1e-6 and abs(p[1] - q[1]) <= 1e-6


def render_tikz(ctx, rng, diagram, layout_result, witness):
    path = tmp_path("case.tikz")
    style_path = tmp_path("case.tikzstyles")
    if os.path.exists(path):
        os.remove(path)
    options = {}
    r = rng.random()
    if r < .12:
        options["use_tikzstyles"] = True
    elif r < .2:
        options["draw_type_labels"] = False
    elif r < .26:
        options["draw_box_labels"] = False
    elif r < .32:
        options["fontsize"] = rng.choice([8, 14])
        options["tikz_options"] = "scale=0.5"
    witness = dict(witness, options=dict(options))
    try:
        diagram.draw(to_tikz=True, path=path, **options)
    except Exception as err:
        ctx.fail("tikz-renders", exception=type(err).__name__,
                 message=str(err)[:300], **witness)
        return
    finally:
        if os.path.exists(style_path):
            os.remove(style_path)
    if not ctx.expect("tikz-renders", os.path.exists(path),
                      problem="no file written", **witness):
        return
    with open(path) as file:
        text = file.read()
    os.remove(path)
    parsed = layout.parse_tikz(text)
    defined = set(n[0] for n in parsed["nodes"])
    undefined = [ref for _, refs in parsed["draws"] for ref in refs
                 if ref not in defined]
    ctx.expect("tikz-well-formed",
               not parsed["problems"] and not undefined
               and len(parsed["nodes"]) >= 2 and "0" in defined,
               problems=parsed["problems"][:5], undefined_refs=undefined[:5],
               n_nodes=len(parsed["nodes"]), n_draws=len(parsed["draws"]),
               **witness)
    ids = [n[0] for n in parsed["nodes"]]
    if len(ids) != len(set(ids)):
        ctx.count("tikz_files_with_a_repeated_node_id")
    if layout_result is None:
        return
    graph, pos, _ = layout_result
    wanted = expected_tikz_wires(graph, pos)
    drawn = layout.tikz_wires(parsed)
    index = {}
    for a, b in drawn:
        index.setdefault((round(a[0], 4), round(a[1], 4)), []).append((a, b))
    absent = []
    for a, b in wanted:
        found = any(close(a, p) and close(b, q)
                    for p, q in index.get((round(a[0], 4), round(a[1], 4)), []))
        if not found:
            absent.append((a, b))
    ctx.expect("tikz-draws-every-wire",
               not absent and len(drawn) >= len(wanted),
               absent=absent[:5], wanted=len(wanted), drawn=len(drawn),
               **witness)


def render_matplotlib(ctx, diagram, witness):
    plt = _S["plt"]
    path = tmp_path("case.png")
    if os.path.exists(path):
        os.remove(path)
    try:
        diagram.draw(path=path, show=False)
        ok = os.path.exists(path) and os.path.getsize(path) > 0
        if ok:
            with open(path, "rb") as file:
                ok = file.read(8) == b"\x89PNG\r\n\x1a\n"
        ctx.expect("matplotlib-renders", ok, problem="no PNG written",
                   **witness)
    except Exception as err:
        ctx.fail("matplotlib-renders", exception=type(err).__name__,
                 message=str(err)[:300], **witness)
    finally:
        plt.close("all")
        if os.path.exists(path):
            os.remove(path)


def replay_diagramize(ctx, rng, diagram, cls, witness):
    """ A function body replaying the wiring in planar order. """
    drawing = _S["drawing"]
    unique, seen = [], set()
    for box in diagram.boxes:
        if id(box) not in seen:
            seen.add(id(box))
            unique.append(box)
    boxes, offsets = list(diagram.boxes), list(diagram.offsets)
    style = rng.randrange(3)

    def body(*wires):
        scan = list(wires)
        for box, off in zip(boxes, offsets):
            n = len(box.dom)
            if n:
                out = box(*scan[off:off + n])
            else:
                out = box(offset=off)
            outs = list(out) if isinstance(out, tuple) else [out]
            scan[off:off + n] = outs
        if len(scan) == 1 and style:
            return scan[0]
        return tuple(scan)
    id_factory = {"monoidal": _S["monoidal"].Id, "rigid": _S["rigid"].Id,
                  "circuit": _S["circuit"].Id}[cls]
    try:
        if unique and style == 2:
            decorator = drawing.diagramize(diagram.dom, diagram.cod, unique)
        else:
            decorator = drawing.diagramize(
                diagram.dom, diagram.cod, unique, id_factory=id_factory)
        result = decorator(body)
    except Exception as err:
        ctx.fail("diagramize-replays-wiring", exception=type(err).__name__,
                 message=str(err)[:300], **witness)
        return
    finally:
        for box in unique:
            box.__dict__.pop("_apply", None)
    same = False
    try:
        same = bool(result == diagram)\
            and list(result.offsets) == offsets\
            and len(result.boxes) == len(boxes)
    except Exception:
        same = False
    ctx.expect("diagramize-replays-wiring", same,
               got_offsets=lambda: safe_repr(getattr(result, "offsets", None)),
               got=lambda: safe_repr(result, 600), **witness)
    # histories: the SAME signature object declares the function once more
    # (and, when the boundary allows it, the wire-only function in between)
    try:
        between = None
        if diagram.dom == diagram.cod and rng.random() < .5:
            between = decorator(lambda *wires: wires[0] if len(wires) == 1
                                and style else tuple(wires))
        again = decorator(body)
    except Exception as err:
        ctx.fail("diagramize-replays-wiring", exception=type(err).__name__,
                 message=str(err)[:300], history="same signature object used "
                 "for a second declaration", **witness)
        return
    finally:
        for box in unique:
            box.__dict__.pop("_apply", None)
    try:
        same = bool(again == diagram) and list(again.offsets) == offsets\
            and (between is None or (len(between.boxes) == 0
                                     and between.dom == diagram.dom))
    except Exception:
        same = False
    ctx.expect("diagramize-replays-wiring", same,
               history="same signature object used for a second declaration",
               got_offsets=lambda: safe_repr(getattr(again, "offsets", None)),
               got=lambda: safe_repr(again, 600),
               wire_only=lambda: safe_repr(between, 300), **witness)


def tikz_text(diagram):
    path = tmp_path("history.tikz")
    if os.path.exists(path):
        os.remove(path)
    try:
        diagram.draw(to_tikz=True, path=path)
        with open(path) as file:
            return file.read()
    finally:
        if os.path.exists(path):
            os.remove(path)


def restyle_history(ctx, rng, diagram, witness):
    """
    Histories on one diagram object: it has been drawn already; one of its
    boxes is then restyled as a spider (the documented `draw_as_spider`
    attribute) and the same diagram is drawn again.  Reference: a twin built
    from fresh boxes that carry the style from the start; when the twin
    renders, the restyled original must render to the same picture.
    """
    m = _S["monoidal"]
    plain = [b for b in diagram.boxes if type(b) is m.Box
             and not getattr(b, "draw_as_spider", False)]
    if not plain or any(type(b) is not m.Box for b in diagram.boxes):
        return
    chosen = plain[rng.randrange(len(plain))]
    fresh = {}
    for box in diagram.boxes:
        if id(box) not in fresh:
            params = {"draw_as_spider": True} if box is chosen else {}
            fresh[id(box)] = m.Box(box.name, box.dom, box.cod, data=box.data,
                                   _dagger=box.is_dagger, **params)
    twin = m.Diagram(diagram.dom, diagram.cod,
                     [fresh[id(b)] for b in diagram.boxes], list(diagram.offsets))
    try:
        reference = tikz_text(twin)
    except Exception as err:
        ctx.count("restyle_twin_does_not_render:" + type(err).__name__)
        return
    witness = dict(witness, history="drawn, one box restyled as a spider, "
                   "drawn again", restyled=safe_repr(chosen, 100))
    chosen.draw_as_spider = True
    try:
        text = tikz_text(diagram)
        ctx.expect("tikz-renders", text == reference,
                   problem="picture differs from the one of a diagram built "
                   "with the styled box from the start", **witness)
        if rng.random() < .2:
            render_matplotlib(ctx, diagram, witness)
    except Exception as err:
        ctx.fail("tikz-renders", exception=type(err).__name__,
                 message=str(err)[:300], **witness)
    finally:
        del chosen.draw_as_spider
    ctx.count("restyle_histories")


def diagramize_refusals(ctx, rng):
    """ Requests outside the statement (ill-typed bodies): only counted. """
    m, drawing = _S["monoidal"], _S["drawing"]
    x, y = m.Ty("x"), m.Ty("y")
    f, g = m.Box("f", x @ y, x), m.Box("g", x, y)
    bodies = [
        ("not-a-node", x @ y, x, lambda a, b: f(a, "b")),
        ("wrong-arity", x @ y, x, lambda a, b: f(a)),
        ("wrong-input-type", x @ y, x, lambda a, b: f(b, a)),
        ("wrong-output-type", x, x, lambda a: g(a)),
        ("no-boxes-no-id", x, x, None)]
    for label, dom, cod, body in bodies:
        try:
            if body is None:
                drawing.diagramize(dom, cod, [])
            else:
                drawing.diagramize(dom, cod, [f, g])(body)
            ctx.count("hostile_diagramize_returned:" + label)
        except Exception as err:
            ctx.refuse("diagramize-{}:{}".format(label, type(err).__name__))
        finally:
            for box in (f, g):
                box.__dict__.pop("_apply", None)


def describe(diagram, cls, extra=None):
    info = dict(
        cls=cls,
        dom=lambda: safe_repr(diagram.dom, 200),
        offsets=lambda: list(diagram.offsets),
        arities=lambda: [(len(b.dom), len(b.cod)) for b in diagram.boxes],
        diagram=lambda: safe_repr(diagram, 900))
    if extra:
        info["theme"] = extra
    if retyped_straight_bubbles(diagram):
        info["retyped_straight_bubble"] = True
    return info


def examine(rng, ctx, diagram, cls, theme=None, replay=False):
    witness = describe(diagram, cls, theme)
    result = examine_layout(ctx, diagram, cls, witness)
    if has_wire_or_box(diagram):
        render_tikz(ctx, rng, diagram, result, witness)
        if rng.random() < .1:
            render_matplotlib(ctx, diagram, witness)
    else:
        ctx.count("empty_diagram_not_rendered")
    if replay:
        replay_diagramize(ctx, rng, diagram, cls, witness)
    if cls == "monoidal" and has_wire_or_box(diagram) and rng.random() < .3:
        restyle_history(ctx, rng, diagram, witness)
    if len(diagram.boxes) >= 2:
        ctx.mark("{}|{}|{}|{}".format(
            cls, len(diagram.dom), list(diagram.offsets),
            [(len(b.dom), len(b.cod)) for b in diagram.boxes]))
    if ctx.index < 24:
        ctx.sample(cls=cls, theme=theme, offsets=list(diagram.offsets),
                   arities=[(len(b.dom), len(b.cod)) for b in diagram.boxes],
                   diagram=safe_repr(diagram, 300))


def sum_case(rng, ctx):
    """ Sums and equations: every term's layout, then the whole on TikZ. """
    drawing = _S["drawing"]
    cls = rng.choice(["monoidal", "monoidal", "rigid", "circuit"])
    kit = _S["kits"][cls]
    if cls == "circuit":
        dom = kit.rand_ty(rng, rng.randint(1, 3))
        first = kit.rand_diagram(rng, rng.randint(1, 4), dom=dom, width=3)
    else:
        first = kit.rand_diagram(rng, rng.randint(1, 4), width=3)
    terms = [first]
    for _ in range(rng.randint(1, 2)):
        if cls == "circuit":
            other = kit.rand_diagram(rng, rng.randint(1, 4), dom=first.dom,
                                     width=3)
        else:
            other = kit.rand_diagram(rng, rng.randint(0, 3), dom=first.dom,
                                     width=3)
        if other.cod == first.cod:
            terms.append(other)
    if len(terms) == 1:
        terms.append(first)
    witness = dict(cls=cls, terms=lambda: [safe_repr(t, 300) for t in terms])
    for term in terms:
        examine_layout(ctx, term, cls, describe(term, cls))
    drawable = [t for t in terms if has_wire_or_box(t)]
    if not drawable:
        return
    path = tmp_path("equation.tikz")
    how = rng.randrange(3)
    try:
        if how == 0 and len(drawable) == len(terms):
            total = terms[0]
            for term in terms[1:]:
                total = total + term
            total.draw(to_tikz=True, path=path)
        elif how == 1:
            drawing.equation(*drawable, path=path, to_tikz=True,
                             symbol=rng.choice(["=", "$\\mapsto$"]))
        else:
            drawing.Equation(*drawable).draw(path=path, to_tikz=True)
        with open(path) as file:
            parsed = layout.parse_tikz(file.read())
        os.remove(path)
    except Exception as err:
        ctx.fail("equation-renders", exception=type(err).__name__,
                 message=str(err)[:300], how=how, **witness)
        return
    defined = set(n[0] for n in parsed["nodes"])
    undefined = [ref for _, refs in parsed["draws"] for ref in refs
                 if ref not in defined]
    ctx.expect("equation-renders",
               not parsed["problems"] and not undefined
               and len(parsed["nodes"]) >= 2,
               problems=parsed["problems"][:5], undefined_refs=undefined[:5],
               how=how, **witness)
    if rng.random() < .15:
        plt = _S["plt"]
        png = tmp_path("equation.png")
        try:
            drawing.equation(*drawable, path=png, show=False)
            ctx.expect("matplotlib-renders", os.path.getsize(png) > 0,
                       what="equation", **witness)
        except Exception as err:
            ctx.fail("matplotlib-renders", what="equation",
                     exception=type(err).__name__, message=str(err)[:300],
                     **witness)
        finally:
            plt.close("all")
            if os.path.exists(png):
                os.remove(png)
    ctx.mark("sum|{}|{}".format(cls, [list(t.offsets) for t in terms]))


def run_case(rng, ctx):
    kind = ctx.index % 12
    if kind in (0, 1, 2, 3, 4):
        diagram, theme = hostile_monoidal(rng)
        examine(rng, ctx, diagram, "monoidal", theme, replay=True)
    elif kind == 5:
        examine(rng, ctx, kit_diagram(rng, "monoidal"), "monoidal",
                replay=True)
    elif kind == 6:
        examine(rng, ctx, kit_diagram(rng, "rigid"), "rigid", replay=True)
    elif kind == 7:
        name = "pure" if rng.random() < .3 else "circuit"
        examine(rng, ctx, kit_diagram(rng, name), "circuit", replay=True)
    elif kind == 8:
        examine(rng, ctx, kit_diagram(rng, "zx"), "zx")
    elif kind == 9:
        examine(rng, ctx, kit_diagram(rng, "tensor"), "tensor")
    elif kind == 10:
        diagram, cls = bubbled(rng)
        examine(rng, ctx, diagram, cls)
    else:
        sum_case(rng, ctx)
        if ctx.index % 48 == 11:
            diagramize_refusals(ctx, rng)
