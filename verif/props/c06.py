"""
C06 - monoidal normal form: sound, idempotent, canonical.

Monitors
  step-is-one-legal-exchange   trace monitor over normalize(): every yielded
                               diagram is exactly one adjacent exchange of its
                               predecessor that the model declares legal and of
                               the advertised orientation
  terminates-within-cap        logical step cap 2 n^3 + 64 on connected inputs
  result-sound                 same boxes, well-typed, same denotation
  idempotent                   nf.normal_form() == nf and normalize(nf) is empty
  canonical                    every member of the input's interchanger class
                               (BFS with model moves) has the same normal form
  refusal-only-if-disconnected NotImplementedError only on disconnected inputs
  non-termination-reported     on a disconnected input the trace may cycle, but
                               then NotImplementedError must be raised before the
                               trace gets longer than the (finite, BFS-closed)
                               interchanger class: decided on logical steps through
                               the public `normalizer=` hook, never on wall-clock
  foliation                    foliate items sound; slices pairwise unwired;
                               flatten of the foliation == last foliate step;
                               depth == number of slices
"""
import itertools

from verif.gen import kits
from verif.instrument import safe_repr, fingerprint
from verif.models import meval, wiring, struct
from verif.models import interchange_model as im
from verif.models.typing import well_typed, tykey

ID = "C06"
TECHNIQUE = ("runtime monitoring: trace monitor over the rewrite steps against "
             "an adjacent-exchange model, BFS enumeration of whole interchanger "
             "classes at run time, generic matrix semantics")
RULE = ("case = random connected monoidal diagram (2-8 boxes, width <= 5, each "
        "box attached to a wire produced by an earlier one; states, effects) "
        "or a spiral/comb worst case or a disconnected control; its class is "
        "enumerated by BFS (cap 300 quick / 4000 thorough members) and EVERY "
        "member is normalised (both orientations).  Non-trivial = connected "
        "with a class of >= 4 members; distinct by the class's sorted keys."
        "  Also: one case in ten takes a circuit or rigid diagram; yielded steps re-checked after the trace; default-normalizer path; returned normal forms fed back in with both orientations.")
SIZES = {"quick": (16, 100), "thorough": (16, 1200)}
TIMEOUT = {"quick": 900, "thorough": 7200}
CLASS_CAP = {"quick": 300, "thorough": 4000}
COVER = {"discopy.rewriting:normalize": 0.95,
         "discopy.rewriting:normal_form": 0.9,
         "discopy.rewriting:foliate": 0.85,
         "discopy.rewriting:foliate.move_in_slice": 0.85,
         "discopy.rewriting:foliate.is_right_of": 0.9,
         "discopy.rewriting:foliation": 0.9,
         "discopy.rewriting:flatten": 0.9,
         "discopy.rewriting:depth": 0.9}
MIN_EVALS = {"quick": {"canonical": 8000, "step-is-one-legal-exchange": 20000,
                       "idempotent": 1000, "classes_with_4_or_more_members": 250,
                       "foliation": 2000},
             "thorough": {"canonical": 200000}}
ASSUMPTIONS = [
    "connected = the graph whose vertices are the boxes and whose edges are "
    "box-to-box wires has at most one component (wires to the boundary do not "
    "connect)",
    "canonicity is decided completely for every class the BFS closes below the "
    "cap and on 200 random-walk members otherwise",
    "left and right normal forms are each canonical; they need not coincide"]

_KIT = None
_OTHER_KITS = None


def setup(ctx):
    global _KIT, _OTHER_KITS
    _KIT = kits.MonoidalKit()
    # the other diagram classes share the rewriting code but not their boxes
    # (hashing, equality, upgrade): circuits and rigid diagrams.  Tensor
    # diagrams are left out: their box equality raises on arrays of unequal
    # shape and their types degrade to rigid.Ty, which is C03's / C08's business
    _OTHER_KITS = [kits.CircuitKit(), kits.RigidKit(structural=False),
                   kits.CircuitKit(pure=True)]


# -- generators ------------------------------------------------------------------

def rand_connected(rng, kit, nboxes, width, tree=False):
    dom = kit.rand_ty(rng, rng.randint(0, width))
    d, scan = kit.id(dom), dom
    produced = [False] * len(dom)
    for k in range(nboxes):
        if k == 0:
            off = rng.randint(0, len(scan))
            span = rng.randint(0, min(3, len(scan) - off))
        else:
            spots = [i for i, p in enumerate(produced) if p]
            if not spots:
                break
            p = rng.choice(spots)
            span = 1 if tree and rng.random() < .8 else rng.randint(1, 3)
            off = rng.randint(max(0, p - span + 1), p)
            span = min(span, len(scan) - off)
            if not off <= p < off + span:
                off, span = p, 1
        remaining = sum(produced) - sum(produced[off:off + span])
        ncod = rng.choice([0, 1, 1, 2, 2, 3]) if remaining or k == nboxes - 1\
            else rng.choice([1, 1, 2, 3])
        if tree and k < nboxes // 2:
            ncod = rng.choice([2, 2, 3])
        if len(scan) - span + ncod > 7:
            ncod = min(ncod, 1)
        box = kit.box_with_dom(rng, scan[off:off + span], cod=kit.rand_ty(rng, ncod))
        if rng.random() < .08:
            box = box.bubble()       # a box like any other for the rewriting
        d = d >> kit.id(scan[:off]) @ box @ kit.id(scan[off + span:])
        scan = scan[:off] @ box.cod @ scan[off + span:]
        produced[off:off + span] = [True] * ncod
    return d


def spiral(kit, n_cups):
    x = kit.Ty("x")
    unit, counit = kit.Box("unit", kit.Ty(), x), kit.Box("counit", x, kit.Ty())
    cup, cap = kit.Box("cup", x @ x, kit.Ty()), kit.Box("cap", kit.Ty(), x @ x)
    result = unit
    for i in range(n_cups):
        result = result >> kit.id(x ** i) @ cap @ kit.id(x ** (i + 1))
    result = result >> kit.id(x ** n_cups) @ counit @ kit.id(x ** n_cups)
    for i in range(n_cups):
        result = result >> kit.id(x ** (n_cups - i - 1)) @ cup\
            @ kit.id(x ** (n_cups - i - 1))
    return result


def comb(rng, kit, n):
    """ A spine f >> f >> ... with states hanging on the right/left of it. """
    x = kit.Ty("x")
    d = kit.Box("s", kit.Ty(), x)
    for k in range(n):
        if rng.random() < .5:
            d = d @ kit.Box("t", kit.Ty(), x) >> kit.Box("m", x @ x, x)
        else:
            d = kit.Box("t", kit.Ty(), x) @ d >> kit.Box("m", x @ x, x)
    return d


def build(original, layers):
    """ The member of the class described by model `layers`. """
    boxes = original.boxes
    return type(original)(original.dom, original.cod,
                          [boxes[k] for k, _ in layers],
                          [off for _, off in layers])


# -- monitors --------------------------------------------------------------------

def trace(ctx, d, left, connected, interp):
    """
    Runs d.normalize(left) under the trace monitor.  Returns the final diagram
    or None (cap hit / illegal step).
    """
    layers, arity = im.model_of(d)
    boxes = d.boxes
    n = len(boxes)
    cap = 2 * n ** 3 + 64
    wanted = "right" if left else "left"
    current, steps = d, 0
    witness = dict(diagram=lambda: safe_repr(d), offsets=d.offsets, left=left)
    seen = {layers}
    log = []
    for step in d.normalize(left=left):
        steps += 1
        log.append((step, fingerprint(step)))
        if steps > cap:
            if connected:
                ctx.fail("terminates-within-cap", steps=steps, cap=cap, **witness)
            else:
                ctx.count("disconnected_input_ran_into_step_cap")
            return None
        found = None
        for i, tag, new in im.neighbours(layers, arity):
            if tag != wanted or [off for _, off in new] != step.offsets:
                continue
            sboxes = step.boxes
            if all(sboxes[k] is boxes[b] or sboxes[k] == boxes[b]
                   for k, (b, _) in enumerate(new)):
                found = new
                break
        ctx.expect("step-is-one-legal-exchange", found is not None, step_number=steps,
                   predecessor=lambda: safe_repr(current),
                   predecessor_offsets=lambda: current.offsets,
                   step=lambda: safe_repr(step), step_offsets=lambda: step.offsets,
                   **witness)
        if found is None:
            return None
        layers, current = found, step
        if layers in seen and not connected:
            return None        # cycling on a disconnected input: allowed
        seen.add(layers)
    ctx.ok("terminates-within-cap")
    ctx.count("normalize_steps", steps)
    steps_stable(ctx, log, witness)
    return current


def steps_stable(ctx, log, witness, monitor="step-is-one-legal-exchange"):
    """
    Prefixes of the trace: a step that was a legal exchange when it was yielded
    must still be the same value once the generator has moved on (a caller
    that collects list(d.normalize()) looks at every step afterwards).
    """
    for k, (step, before) in enumerate(log):
        now = fingerprint(step)
        ctx.expect(monitor, now == before, step_number=k + 1,
                   reason="a step yielded earlier changed after the generator "
                   "advanced", offsets_when_yielded=list(before[0]),
                   offsets_now=list(now[0]), **witness)
        if now != before:
            break


def sound(ctx, monitor, d, result, interp, **extra):
    witness = dict(diagram=lambda: safe_repr(d), result=lambda: safe_repr(result),
                   result_offsets=lambda: getattr(result, "offsets", None), **extra)
    ok, why = well_typed(result)
    good = ok and tykey(result.dom) == tykey(d.dom) and tykey(result.cod) == tykey(d.cod)
    if good:
        mine = sorted(repr(struct.boxkey(b)) for b in d.boxes)
        theirs = sorted(repr(struct.boxkey(b)) for b in result.boxes)
        good = mine == theirs
        why = "different multiset of boxes"
    if good:
        same = meval.close(meval.evaluate(d, interp), meval.evaluate(result, interp))
        if same is None:
            ctx.count("semantics_skipped_too_wide")
        elif not same:
            good, why = False, "different denotation"
    ctx.expect(monitor, good, reason=why, **witness)
    return good


class StepCapExceeded(Exception):
    pass


def guarded(cap):
    """ A normalizer (public `normalizer=` hook) that counts rewrite steps. """
    from discopy import monoidal

    def normalizer(diagram, **params):
        steps = 0
        for step in monoidal.Diagram.normalize(diagram, **params):
            steps += 1
            if steps > cap:
                raise StepCapExceeded(steps)
            yield step
    return normalizer


def normal_form(ctx, d, left, connected, class_size=None):
    """
    (value, refused).  Termination is decided on logical steps: a connected
    input gets 2 n^3 + 64 steps; a disconnected one can only cycle inside its
    (finite) interchanger class, so a trace longer than the class without a
    NotImplementedError means that non-termination is not being reported.
    """
    n = len(d)
    cap = 2 * n ** 3 + 64 + (class_size or 0)
    try:
        return d.normal_form(normalizer=guarded(cap), left=left), False
    except NotImplementedError:
        ctx.expect("refusal-only-if-disconnected", not connected,
                   diagram=lambda: safe_repr(d), offsets=d.offsets, left=left)
        ctx.refuse("NotImplementedError-on-disconnected" if not connected
                   else "NotImplementedError-on-connected")
        return None, True
    except StepCapExceeded:
        if connected:
            ctx.fail("terminates-within-cap", steps=cap, cap=cap, where="normal_form",
                     diagram=safe_repr(d), offsets=d.offsets, left=left)
        elif class_size is not None:
            ctx.fail("non-termination-reported", steps=cap, class_size=class_size,
                     reason="the rewrite trace is longer than the whole "
                     "interchanger class, yet no NotImplementedError was raised",
                     diagram=safe_repr(d), offsets=d.offsets, left=left)
        else:
            ctx.count("disconnected_class_not_closed_step_cap_hit")
        return None, True


def fan(kit, n):
    """ n states listed right-to-left above one box joining them: about
    n (n - 1) / 2 interchanges away from its normal form. """
    x = kit.Ty("x")
    d = kit.id(kit.Ty())
    for k in range(n):
        d = d >> kit.Box("s{}".format(k), kit.Ty(), x) @ kit.id(d.cod)
    return d >> kit.Box("join", x ** n, x)


def long_case(rng, ctx):
    """
    Worst cases far from normal form: spirals with 4-6 cups (cubic number of
    steps) and wide fans (about a thousand steps).  No class enumeration: the
    trace monitor, soundness and idempotence only.
    """
    kit = _KIT
    if ctx.index % 2:
        d = spiral(kit, 4 + (ctx.shard + ctx.index) % 3)
    else:
        d = fan(kit, [12, 20, 30, 47][(ctx.shard + ctx.index // 2) % 4])
    connected = wiring.is_connected(d)
    interp = meval.Interp("long", dims=(2,))
    for left in (False, True):
        final = trace(ctx, d, left, connected, interp)
        reference, _ = normal_form(ctx, d, left, connected)
        if reference is None:
            ctx.fail("terminates-within-cap", where="long case: no normal form",
                     boxes=len(d), left=left, diagram=safe_repr(d, 800))
            continue
        ctx.expect("result-sound", final is not None and final == reference,
                   reason="normal_form() differs from the last normalize() step",
                   boxes=len(d), left=left)
        layers, arity = im.model_of(reference)
        ctx.expect("idempotent", not list(itertools.islice(
            reference.normalize(left=left), 2)), boxes=len(d), left=left)
        ok, why = well_typed(reference)
        ctx.expect("result-sound", ok, reason=why, boxes=len(d), left=left)
    ctx.count("long_cases")
    ctx.mark("long" + safe_repr(d, 300) + str(len(d)))


def run_case(rng, ctx):
    kit = _KIT
    if ctx.index % 50 in (24, 49):
        return long_case(rng, ctx)
    kind = ctx.index % 10
    if kind == 8:
        d = spiral(kit, rng.randint(1, 3)) if rng.random() < .5\
            else comb(rng, kit, rng.randint(2, 5))
    elif kind == 9:        # disconnected control
        d = kit.rand_diagram(rng, rng.randint(2, 6), width=rng.randint(0, 3))
    elif kind == 5:        # another diagram class (connected or not)
        other = _OTHER_KITS[(ctx.index // 10 + ctx.shard) % len(_OTHER_KITS)]
        d = other.rand_diagram(rng, rng.randint(2, 6), width=rng.randint(1, 3))
        ctx.count("inputs_of_class:" + other.name)
    elif kind == 7:        # disconnected: a connected piece next to scalars/states
        d = rand_connected(rng, kit, rng.randint(1, 4), rng.randint(0, 2))
        for _ in range(rng.randint(1, 3)):
            s = kit.box_with_dom(rng, kit.Ty(), cod=kit.rand_ty(rng, rng.choice([0, 0, 1])))
            where = rng.randrange(3)
            if where == 0:
                d = d @ s
            elif where == 1:
                d = s @ d
            else:       # a scalar dropped somewhere in the middle
                k = rng.randint(0, len(d))
                top = d[:k]
                w = rng.randint(0, len(top.cod))
                scalar = kit.box_with_dom(rng, kit.Ty(), cod=kit.Ty())
                d = top >> kit.id(top.cod[:w]) @ scalar @ kit.id(top.cod[w:]) >> d[k:]
    else:
        d = rand_connected(rng, kit, rng.choice([2, 3, 4, 5, 5, 6, 7, 8, 9]),
                           rng.randint(0, 4), tree=kind % 2 == 0)
    n = len(d)
    if n < 1:
        return
    connected = wiring.is_connected(d)
    ctx.count("connected_inputs" if connected else "disconnected_inputs")
    width = max([len(d.dom)] + [len(l) + len(b.cod) + len(r) for l, b, r in d.layers])
    interp = meval.Interp("nf{}".format(ctx.index), dims=(2, 3) if width <= 5 else (2,))
    layers, arity = im.model_of(d)
    key_before = repr(struct.key(d))
    members, closed = im.equivalence_class(layers, arity, CLASS_CAP[ctx.tier])
    members = sorted(members)
    if not closed:
        ctx.count("classes_not_closed_by_bfs")
        picked = [layers]
        cur = layers
        for _ in range(199):
            options = list(im.neighbours(cur, arity))
            if not options:
                break
            cur = options[rng.randrange(len(options))][2]
            picked.append(cur)
        members = sorted(set(picked))
    else:
        ctx.count("classes_closed_by_bfs")
    if len(members) >= 4:
        ctx.count("classes_with_4_or_more_members")
    ctx.count("class_members_normalised", len(members))
    refs = {}
    for left in (False, True):
        # trace monitor on the input itself and on a few scrambled members
        for member_layers in [members[rng.randrange(len(members))]
                              for _ in range(min(4, len(members) - 1))]:
            trace(ctx, build(d, member_layers), left, connected, interp)
        final = trace(ctx, d, left, connected, interp)
        reference, refused = normal_form(
            ctx, d, left, connected, len(members) if closed else None)
        if not connected and reference is not None or refused and not connected:
            ctx.ok("non-termination-reported")
        if reference is None:
            continue
        if final is not None:
            ctx.expect("result-sound", final == reference,
                       reason="normal_form() differs from the last normalize() step",
                       diagram=lambda: safe_repr(d), left=left)
        if not sound(ctx, "result-sound", d, reference, interp, left=left):
            continue
        refs[left] = reference
        # idempotence
        again, _ = normal_form(ctx, reference, left, connected)
        extra_steps = list(itertools.islice(reference.normalize(left=left), 3))
        ctx.expect("idempotent", again is not None and again == reference
                   and not extra_steps, diagram=lambda: safe_repr(d), left=left,
                   normal_form=lambda: safe_repr(reference),
                   normal_form_offsets=lambda: reference.offsets,
                   again=lambda: safe_repr(again), extra_steps=len(extra_steps))
        # history: a caller edits the lists that the accessors of the normal
        # form handed out (to build another member of the class by hand); the
        # normal form is a value: it stays what it was and stays a fixed point
        nf_key = struct.key(reference)
        handed_offsets, handed_boxes = reference.offsets, reference.boxes
        if handed_offsets:
            handed_offsets[0] += 1
            handed_offsets.reverse()
            handed_boxes.reverse()
        handed_offsets.append(0)
        steps_after = list(itertools.islice(reference.normalize(left=left), 3))\
            if struct.key(reference) == nf_key else None
        ctx.expect("idempotent", steps_after == [],
                   where="after the caller edited the lists returned by "
                   ".offsets and .boxes of the normal form", left=left,
                   diagram=lambda: safe_repr(d),
                   normal_form_offsets_now=lambda: list(reference.offsets),
                   same_value_as_before=struct.key(reference) == nf_key)
        if not connected:
            continue
        ref_key = struct.key(reference)
        for member_layers in members:
            if member_layers == layers:
                continue
            member = build(d, member_layers)
            value, refused = normal_form(ctx, member, left, connected)
            if value is None:
                continue
            ctx.expect("canonical", value == reference and struct.key(value) == ref_key,
                       left=left, input=lambda: safe_repr(d), input_offsets=d.offsets,
                       member=lambda: safe_repr(member),
                       member_offsets=lambda: member.offsets,
                       normal_form_of_input=lambda: safe_repr(reference),
                       normal_form_of_input_offsets=lambda: reference.offsets,
                       normal_form_of_member=lambda: safe_repr(value),
                       normal_form_of_member_offsets=lambda: value.offsets,
                       class_size=len(members), class_closed=closed)
    returned_values_fed_back(ctx, d, refs, connected)
    foliation_case(ctx, d, connected, interp, members if closed else None)
    ctx.expect("operands-unchanged", im.model_of(d)[0] == layers
               and repr(struct.key(d)) == key_before,
               diagram=lambda: safe_repr(d), offsets=lambda: d.offsets)
    if connected and len(members) >= 4:
        ctx.mark(repr(members)[:4000] + safe_repr(d, 500))
    if ctx.index < 20:
        ctx.sample(diagram=safe_repr(d, 400), offsets=d.offsets, connected=connected,
                   class_size=len(members), class_closed=closed)


def returned_values_fed_back(ctx, d, refs, connected):
    """
    Histories.  The default path (no `normalizer=`) on the input, then the very
    objects it returned fed back in with the same and with the other
    orientation: the answers depend on the value, never on where the object
    came from.  Only run when the step-counted run above terminated.
    """
    for left, reference in refs.items():
        witness = dict(diagram=lambda: safe_repr(d), offsets=d.offsets, left=left,
                       normal_form=lambda: safe_repr(reference),
                       normal_form_offsets=lambda: reference.offsets)
        try:
            plain = d.normal_form(left=left)
        except NotImplementedError:
            ctx.expect("refusal-only-if-disconnected", not connected,
                       where="default normalizer", **witness)
            continue
        ctx.expect("result-sound", plain == reference
                   and struct.key(plain) == struct.key(reference),
                   reason="normal_form() with the default normalizer differs from "
                   "the step-counted run", got=lambda: safe_repr(plain),
                   got_offsets=lambda: plain.offsets, **witness)
        try:
            again = plain.normal_form(left=left)
            ctx.expect("idempotent", again == plain, where="returned object fed "
                       "back in", again=lambda: safe_repr(again),
                       again_offsets=lambda: again.offsets, **witness)
            if connected and (not left) in refs:
                other = plain.normal_form(left=not left)
                ctx.expect("canonical", other == refs[not left]
                           and struct.key(other) == struct.key(refs[not left]),
                           where="normal form with one orientation fed into the "
                           "other orientation", got=lambda: safe_repr(other),
                           got_offsets=lambda: other.offsets,
                           expected_offsets=lambda: refs[not left].offsets, **witness)
                back = other.normal_form(left=left)
                ctx.expect("canonical", back == reference, where="there and back",
                           got_offsets=lambda: back.offsets, **witness)
        except NotImplementedError:
            ctx.expect("refusal-only-if-disconnected", not connected,
                       where="normal form fed back in", **witness)


def foliation_case(ctx, d, connected, interp, members):
    last = d
    count = 0
    log = []
    for item in d.foliate():
        log.append((item, fingerprint(item)))
        count += 1
        if count > 400:
            ctx.fail("foliation", reason="more than 400 foliate steps",
                     diagram=safe_repr(d))
            return
        if not sound(ctx, "foliation", d, item, interp, what="foliate step"):
            return
        last = item
    steps_stable(ctx, log, dict(diagram=lambda: safe_repr(d), offsets=d.offsets),
                 monitor="foliation")
    *_, slices = d.foliate(yield_slices=True)
    fol = d.foliation()
    witness = dict(diagram=lambda: safe_repr(d), offsets=d.offsets,
                   foliation=lambda: safe_repr(fol))
    ctx.expect("foliation", d.depth() == len(slices) == len(fol.boxes),
               reason="depth() != number of slices", **witness)
    for inner in fol.boxes:
        ok, why = well_typed(inner)
        ctx.expect("foliation", ok and not wiring.box_edges(inner),
                   reason="two boxes of one slice are wired to each other" if ok
                   else why, slice=lambda: safe_repr(inner), **witness)
    flat = fol.flatten()
    ctx.expect("foliation", flat == last and struct.key(flat) == struct.key(last),
               reason="flatten(foliation) != last foliate step",
               flat=lambda: safe_repr(flat), last=lambda: safe_repr(last), **witness)
    sound(ctx, "foliation", d, flat, interp, what="flattened foliation")
    ok, why = well_typed(fol)
    ctx.expect("foliation", ok, reason="foliation ill-typed: " + why, **witness)
    if members is not None and len(flat) == len(d):
        # the flattened foliation must be a member of the input's class
        found = any([off for _, off in m] == flat.offsets and all(
            flat.boxes[k] == d.boxes[b] for k, (b, _) in enumerate(m))
            for m in members)
        ctx.expect("foliation", found,
                   reason="flattened foliation is not interchanger-equivalent "
                   "to the input", flat=lambda: safe_repr(flat), **witness)
    if connected:
        try:
            ctx.expect("foliation", flat.normal_form(normalizer=guarded(4000))
                       == d.normal_form(normalizer=guarded(4000)),
                       reason="flattened foliation has another normal form", **witness)
        except (NotImplementedError, StepCapExceeded):
            ctx.fail("refusal-only-if-disconnected", diagram=safe_repr(d),
                     where="normal form of the flattened foliation")
