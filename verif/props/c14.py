"""
C14 - substituting parameters commutes with evaluation.

Workload: one symbolic diagram per case (arms: tensor, pure circuit, mixed
circuit, classical gates, ZX, generic nested data), then several substitution
styles (python float / int / sympy number / other symbol / expression / list
of pairs partial / list of pairs total / partial then total) and one or two
lambdify calls.

Monitors (each counts its own evaluations)
  free-symbols-exact            d.free_symbols == symbols found in box payloads
  subs-returns / lambdify-returns   the operation hands back a value
  attributes-preserved          per box: class, dom, cod, dagger flag, is_mixed,
                                name of data-independent boxes, untouched boxes equal
  shape-preserved               dom, cod, number of boxes, offsets
  mixedness-preserved           diagram.is_mixed unchanged
  subs-box-data / lambdify-box-data   new payload == sympy substitution of old payload
  free-symbols-after            symbols of the result == symbols of the model payloads
  substituted-evaluates         eval(d.subs(s)) returns
  eval-commutes                 eval(d.subs(s)) == sympy-substituted eval(d)   (numerically)
  tensor-subs-model             eval(d).subs(s) (Tensor.subs, on the sympified array) == the same model
  tensor-subs-raw               the same on the evaluation as returned (plain numbers included)
  cqmap-subs-model              the same on the CQMap of a mixed evaluation
  lambdify-equals-subs-diagram  structural equality up to float rounding; the function returned by
                                d.lambdify(*xs) is kept and called 2-3 times, every call is checked
  lambdify-eval-model           eval(d.lambdify(xs)(vs)) == model
  lambdify-equals-subs-eval     eval(lambdified) == eval(substituted)
  box-lambdify-equals-box-subs  box by box, also when the whole call raised
  total-reports-no-symbols / total-evaluates-to-numbers
"""
import re

import numpy
import sympy

from verif.models import sym
from verif.instrument import safe_repr

ID = "C14"
RULE = ("case = (arm, random symbolic diagram with <=3 wires and <=6 boxes "
        "over 1-3 symbols, 4-6 substitution styles, 1-2 lambdify calls); "
        "non-trivial = the diagram has >=1 box with a symbol and at least one "
        "substitution reached the semantic comparison; distinct by the repr "
        "of the diagram and of the substitutions."
        "  Also: the same diagram lambdified again in another symbol order; bubble facet on tensor diagrams; radicands of either sign.")
SIZES = {"quick": (16, 26), "thorough": (16, 300)}
TIMEOUT = {"quick": 900, "thorough": 5400}
COVER = {
    "discopy.cat:rsubs": 1.0,
    "discopy.cat:Box.subs": 0.9,
    "discopy.cat:Box.lambdify": 0.9,
    "discopy.cat:Box.__init__.recursive_free_symbols": 0.9,
    "discopy.monoidal:Diagram.subs": 1.0,
    "discopy.monoidal:Diagram.lambdify": 1.0,
    "discopy.quantum.gates:Parametrized.subs": 1.0,
    "discopy.quantum.gates:Parametrized.lambdify": 1.0,
    "discopy.quantum.gates:Parametrized.modules": 0.9,
    "discopy.quantum.gates:ClassicalGate.subs": 1.0,
    "discopy.quantum.gates:ClassicalGate.lambdify": 0.6,
    "discopy.quantum.zx:Spider.subs": 1.0,
    "discopy.quantum.zx:Scalar.subs": 1.0,
    "discopy.tensor:Tensor.subs": 1.0,
}
MIN_EVALS = {
    "quick": {"free-symbols-exact": 1400, "attributes-preserved": 8500,
              "subs-box-data": 4500, "eval-commutes": 2000,
              "tensor-subs-model": 1700, "lambdify-returns": 800,
              "lambdify-eval-model": 750,
              "lambdify-equals-subs-diagram": 800,
              "total-reports-no-symbols": 1300},
    "thorough": {"eval-commutes": 20000, "tensor-subs-model": 15000,
                 "lambdify-eval-model": 2500, "subs-box-data": 40000}}
ASSUMPTIONS = [
    "substituted values are real (python floats/ints, sympy numbers) or "
    "symbols/expressions; lambdified diagrams are called on python floats and "
    "ints only",
    "a list of pairs is read with sympy's own (sequential) semantics on both "
    "sides; lambdify is compared with subs on numeric values only, where "
    "sequential and simultaneous substitution coincide",
    "diagram equality between lambdify and subs results is structural with "
    "payloads compared to 1e-9 (sympy and numpy round differently in the last "
    "place); the library's == is counted as information only",
    "ZX diagrams are evaluated by the harness's own interpreter (Z/X/H/SWAP/"
    "scalar); the only formal sum exercised is d + d (lambdified once, called "
    "at every point, term count and term structure only); bubbles are exercised "
    "only around tensor diagrams and with entrywise polynomials, which "
    "commute with substitution",
    "dagger flags are compared as booleans (None, the self-adjoint marker, "
    "reads as False)",
    "when eval(d.subs(s)) crashes because a rotation keeps a symbol-free sympy "
    "phase (listed finding), the harness casts those phases to float itself "
    "and still compares the values (counter eval-commutes-via-harness-cast)",
    "per shard at most 10 violations per listed mechanism are recorded "
    "verbatim, further ones matching the same predicate are counted only "
    "(counters failure-not-recorded-repeat-of:*); unlisted violations are "
    "always recorded"]
TECHNIQUE = ("runtime monitoring: sympy substitution of the symbolic "
             "evaluation and of box payloads as reference model, compared "
             "numerically at random real points")

_NOCALL = re.compile(r"has no callable (sin|cos|exp) method")


# --------------------------------------------------------------------------
# known-finding predicates (mechanisms, never seeds)
# --------------------------------------------------------------------------
def _change_kind(change):
    cls, attr, before, after, op = (list(change) + [None] * 5)[:5]
    if cls == "quantum.gates.Scalar" and attr == "is_mixed"\
            and before is True and after is False:
        return "scalar-mixed"
    if cls == "quantum.gates.ClassicalGate" and attr == "is_dagger"\
            and before is True and after is False and op == "subs":
        return "cg-dagger"
    if cls in ("quantum.gates.Copy", "quantum.gates.Match") and attr == "class"\
            and after == "quantum.gates.ClassicalGate" and op == "subs":
        return "cg-subclass"
    return None


def _consequence_of(monitor, w, kind):
    """ A value mismatch explained entirely by known attribute changes. """
    if monitor not in ("mixedness-preserved", "eval-commutes",
                       "lambdify-eval-model", "lambdify-equals-subs-eval",
                       "lambdify-equals-subs-diagram",
                       "box-lambdify-equals-box-subs"):
        return False
    changes = w.get("attr_changes") or []
    if not changes or w.get("failure") not in ("value-mismatch", "flag"):
        return False
    kinds = [_change_kind(c) for c in changes]
    return all(k is not None for k in kinds) and kind in kinds


def p_sympy_number(monitor, w):
    """
    A rotation whose phase became a symbol-free sympy number (after subs, or
    after a partial lambdify in which the remaining symbol cancels) cannot be
    evaluated: numpy.sin/cos/exp refuse sympy objects.
    """
    return (monitor == "substituted-evaluates" and w.get("op") == "subs"
            or monitor == "lambdify-eval-model" and w.get("op") == "lambdify"
            and w.get("failure") == "exception")\
        and w.get("exception") == "TypeError"\
        and bool(_NOCALL.search(w.get("message", "")))\
        and bool(w.get("sympy_number_rotations"))


def p_scalar_mixed(monitor, w):
    if monitor == "attributes-preserved":
        return _change_kind(w.get("change", [])) == "scalar-mixed"\
            and w.get("op") in ("subs", "lambdify")
    return _consequence_of(monitor, w, "scalar-mixed")


def p_cg_dagger(monitor, w):
    if monitor == "attributes-preserved":
        return _change_kind(w.get("change", [])) == "cg-dagger"
    return _consequence_of(monitor, w, "cg-dagger")


def p_cg_lambdify(monitor, w):
    return monitor == "lambdify-returns" and w.get("exception") == "TypeError"\
        and "cannot be interpreted as an integer" in w.get("message", "")\
        and w.get("raising_box") == "quantum.gates.ClassicalGate"


def p_zx_lambdify(monitor, w):
    return monitor == "lambdify-returns" and w.get("exception") == "TypeError"\
        and "unexpected keyword argument '_dagger'" in w.get("message", "")\
        and w.get("arm") == "zx"\
        and w.get("raising_box") in ("quantum.zx.Z", "quantum.zx.X",
                                     "quantum.zx.Scalar")


_NDARRAY_CONSEQUENCES = (
    "subs-box-data", "lambdify-box-data", "free-symbols-after",
    "substituted-evaluates", "eval-commutes", "total-reports-no-symbols",
    "total-evaluates-to-numbers", "lambdify-eval-model",
    "lambdify-equals-subs-diagram", "lambdify-equals-subs-eval",
    "box-lambdify-equals-box-subs", "attributes-preserved")


def p_ndarray_data(monitor, w):
    """
    cat.rmap rebuilds a numpy array with type(data)([...]) == numpy.ndarray(
    shape): TypeError, or (integer entries) an uninitialised array.  The
    tensor arm marks the few diagrams built with such payloads.
    """
    if monitor in _NDARRAY_CONSEQUENCES:
        return w.get("arm") == "tensor" and w.get("ndarray_payload") is True\
            and w.get("op") in ("subs", "lambdify")
    # numpy.ndarray(<substituted entries>) reads them as a shape: TypeError
    # for non-integers, ValueError for negative ones, MemoryError for big ones
    return monitor in ("subs-returns", "lambdify-returns")\
        and w.get("exception") in ("TypeError", "ValueError", "MemoryError")\
        and w.get("raising_box") == "tensor.Box"\
        and w.get("raising_container") == "ndarray"


def p_tensor_subs_plain(monitor, w):
    if monitor not in ("tensor-subs-raw", "cqmap-subs-model")\
            or not w.get("plain_entries"):
        return False
    if w.get("failure") == "value-mismatch" and monitor == "tensor-subs-raw":
        return w.get("mismatch_only_at_plain_entries") is True
    message = w.get("message", "")
    return w.get("failure") == "exception" and w.get("list_style")\
        and w.get("exception") == "ValueError"\
        and ("setting an array element with a sequence" in message
             or "cannot reshape array" in message)


def p_cqmap_subs(monitor, w):
    return monitor == "cqmap-subs-model" and w.get("failure") == "exception"\
        and w.get("value_class") == "CQMap" and w.get("exception") == "TypeError"\
        and "object cannot be interpreted as an integer" in w.get("message", "")


_DATALESS = ("quantum.gates.Bits", "quantum.gates.Digits")


def p_cg_unguarded(monitor, w):
    """ ClassicalGate.subs/lambdify applied to subclasses without the symbol. """
    if monitor == "attributes-preserved":
        return _change_kind(w.get("change", [])) == "cg-subclass"
    raising = w.get("raising_box")
    message = w.get("message", "")
    if monitor in ("subs-returns", "lambdify-returns")\
            and w.get("exception") == "AttributeError"\
            and "'NoneType' object has no attribute" in message:
        return raising in _DATALESS
    if monitor == "lambdify-returns" and w.get("exception") == "TypeError"\
            and "only integer scalar arrays" in message:
        return raising in ("quantum.gates.Copy", "quantum.gates.Match")
    return False


_PARAMETRIZED = tuple("quantum.gates." + n for n in (
    "Rx", "Ry", "Rz", "CRz", "CRx", "CU1", "Scalar", "Sqrt", "MixedScalar"))


def p_parametrized_lambdify_unguarded(monitor, w):
    """
    Parametrized.lambdify has no 'none of the symbols occurs -> return self'
    guard: a box whose phase is a *function* (sin, cos ...) of other symbols
    is pushed through numpy and raises.
    """
    return monitor == "lambdify-returns" and w.get("exception") == "TypeError"\
        and w.get("raising_box") in _PARAMETRIZED\
        and w.get("raising_box_has_symbol") is False


PREDICATES = {
    "parametrized_subs_sympy_number": p_sympy_number,
    "scalar_mixedness_dropped": p_scalar_mixed,
    "classicalgate_subs_dagger_flag": p_cg_dagger,
    "classicalgate_lambdify": p_cg_lambdify,
    "zx_lambdify_signature": p_zx_lambdify,
    "box_data_ndarray": p_ndarray_data,
    "tensor_subs_plain_numbers": p_tensor_subs_plain,
    "cqmap_subs": p_cqmap_subs,
    "classicalgate_subs_unguarded": p_cg_unguarded,
    "parametrized_lambdify_unguarded": p_parametrized_lambdify_unguarded,
}

# --------------------------------------------------------------------------
# reporting: every failure goes through here
# --------------------------------------------------------------------------
CAP = 10          # recorded occurrences per listed mechanism and shard
_SEEN = {}


_LISTED = []


def listed_predicates():
    """ Predicates of the entries with status "known" (read once, read-only). """
    if not _LISTED:
        from verif import findings
        _LISTED.append({e.get("predicate") for e in findings.load(ID)
                        if e.get("status") == "known"})
    return _LISTED[0]


def report(ctx, monitor, **witness):
    """
    Records a failure.  The runner keeps at most 400 violations verbatim per
    shard; a listed mechanism that fires in almost every case would exhaust
    that, so after CAP recorded occurrences per shard further failures that
    match the *same predicate* are only counted.  Anything that matches no
    predicate is always recorded.
    """
    w = {k: (v() if callable(v) else v) for k, v in witness.items()}
    for name, pred in PREDICATES.items():
        if name not in listed_predicates():
            continue          # only mechanisms still listed as known are capped
        try:
            hit = pred(monitor, w)
        except Exception:
            hit = False
        if hit:
            _SEEN[name] = _SEEN.get(name, 0) + 1
            if _SEEN[name] > CAP:
                ctx.ok(monitor)
                ctx.count("failure-not-recorded-repeat-of:" + name)
                return False
            break
    ctx.fail(monitor, **w)
    return False


def expect(ctx, monitor, cond, **witness):
    if cond:
        ctx.ok(monitor)
        return True
    return report(ctx, monitor, **witness)


# --------------------------------------------------------------------------
# generators
# --------------------------------------------------------------------------
_S = {}


def setup(ctx):
    phi, psi, chi = sympy.symbols("phi psi chi")
    rho = sympy.Symbol("rho", real=True)
    _S["pool"] = [phi, psi, chi, rho]
    _S["fresh"] = [sympy.Symbol("u"), sympy.Symbol("v", real=True)]


def clsname(obj):
    return type(obj).__module__.replace("discopy.", "") + "." + type(obj).__name__


def rand_coeff(rng):
    return rng.choice([1, 2, -1, -2, 0.5, sympy.Rational(1, 2), 1.5,
                       sympy.Rational(1, 3), -0.5, 3])


def rand_const(rng):
    return rng.choice([0, 0, 0.25, 1, sympy.Rational(1, 3), -0.5, 0.125, 2])


def rand_expr(rng, syms, functions=True):
    """ Expression over syms that certainly contains a symbol. """
    expr = _rand_expr(rng, syms, functions)
    if not getattr(expr, "free_symbols", None):
        return rng.choice(syms)
    return expr


def _rand_expr(rng, syms, functions=True):
    x = rng.choice(syms)
    others = [s for s in syms if s != x] or [x]
    y = rng.choice(others)
    kind = rng.randrange(10)
    if kind == 0:
        return x
    if kind in (1, 2):
        return rand_coeff(rng) * x + rand_const(rng)
    if kind == 3:
        return x + rand_coeff(rng) * y
    if kind == 4:
        return x * y + rand_const(rng)
    if kind == 5:
        return x ** 2 / 2 + rand_const(rng)
    if kind == 6:
        return rand_coeff(rng) * x * y + y / 2
    if kind == 7:
        return (x - y) * rand_coeff(rng) + rand_const(rng)
    if kind == 8 and functions:
        return rng.choice([sympy.sin, sympy.cos])(x) / 2 + rand_const(rng)
    if kind == 9:
        return -x
    return x / 4 + y


def positive_expr(rng, syms):
    x = rng.choice(syms)
    return rng.choice([1, 2, 0.5]) * x ** 2 + rng.choice([1, 0.5, 2])


def radicand(rng, syms):
    """ Argument of a sqrt scalar: positive, negative or of either sign at the
    values substituted later (principal branch on both sides). """
    x = rng.choice(syms)
    return rng.choice([positive_expr(rng, syms), -positive_expr(rng, syms),
                       2 * x - 1, x, -x - 0.25])


def rand_number(rng):
    return rng.choice([0, 1, -1, 0.5, 2, 1j, 0.25 - 0.5j, 0.3, -1.5,
                       sympy.Rational(1, 2), 1.0])


# -- tensor ------------------------------------------------------------------
def gen_tensor(rng, syms):
    from discopy import tensor
    from discopy.tensor import Dim
    scan = [rng.choice([2, 2, 3]) for _ in range(rng.randint(0, 2))]
    d = tensor.Id(Dim(*scan))
    nboxes = rng.randint(1, 4)
    symbolic_at = rng.randrange(nboxes)
    info = {"containers": []}
    for k in range(nboxes):
        if len(scan) >= 2 and rng.random() < 0.12:
            off = rng.randrange(len(scan) - 1)
            box = tensor.Swap(Dim(scan[off]), Dim(scan[off + 1]))
            d = d >> tensor.Id(Dim(*scan[:off])) @ box\
                @ tensor.Id(Dim(*scan[off + 2:]))
            scan[off], scan[off + 1] = scan[off + 1], scan[off]
            if k != symbolic_at:
                continue
        span = rng.randint(0, min(2, len(scan)))
        off = rng.randint(0, len(scan) - span)
        dom = scan[off:off + span]
        room = 3 - (len(scan) - span)
        cod = [rng.choice([2, 2, 3]) for _ in range(rng.randint(0, max(0, min(2, room))))]
        size = int(numpy.prod(dom + cod)) if dom + cod else 1
        symbolic = k == symbolic_at or rng.random() < 0.5
        # where the symbol certainly goes: not always the first entry (an
        # array rebuilt with a dtype inferred from a leading plain integer
        # must still hold the substituted values)
        forced = rng.randrange(size) if rng.random() < 0.6 else 0
        entries = []
        for i in range(size):
            if symbolic and (rng.random() < 0.45 or i == forced):
                entries.append(rand_expr(rng, syms))
            elif i == 0 and rng.random() < 0.5:
                entries.append(rng.choice([1, 0, 2, -1]))
            else:
                entries.append(rand_number(rng))
        container = rng.choice(["list", "list", "list", "nested", "tuple"])
        if info.get("want_ndarray") is None:
            info["want_ndarray"] = rng.random() < 0.3
        if info["want_ndarray"] and symbolic:
            container = "ndarray"
        if container == "nested" and dom + cod:
            data = numpy.array(entries, dtype=object).reshape(dom + cod).tolist()
        elif container == "tuple":
            data = tuple(entries)
        elif container == "ndarray":
            data = numpy.array(entries, dtype=object)
        else:
            data = list(entries)
        info["containers"].append(container)
        info["ndarray"] = info.get("ndarray") or container == "ndarray"
        name = rng.choice("fghk")
        if rng.random() < 0.3:
            box = tensor.Box(name, Dim(*cod), Dim(*dom), data).dagger()
        else:
            box = tensor.Box(name, Dim(*dom), Dim(*cod), data)
        d = d >> tensor.Id(Dim(*scan[:off])) @ box\
            @ tensor.Id(Dim(*scan[off + span:]))
        scan[off:off + span] = cod
    return d, info


# -- circuits ----------------------------------------------------------------
def gen_circuit(rng, syms, mixed):
    from discopy.quantum import circuit as qc, gates as g
    from discopy.quantum.circuit import qubit, bit, Id
    n = rng.choice([1, 1, 2, 2, 2, 3]) if not mixed else rng.choice([1, 1, 2])
    budget = rng.randint(2, 6)
    kinds = ["q"] * n
    used = 0
    if rng.random() < 0.65:
        d = g.Ket(*[rng.randint(0, 1) for _ in range(n)])
        used += 1
    else:
        d = Id(qubit ** n)
    has_symbol = False

    def ty(ks):
        t = qc.Ty()
        for k in ks:
            t = t @ (qubit if k == "q" else bit)
        return t

    def place(box, off):
        nonlocal d, used
        span = len(box.dom)
        d = d >> Id(ty(kinds[:off])) @ box @ Id(ty(kinds[off + span:]))
        kinds[off:off + span] = ["q" if x.name == "qubit" else "b"
                                 for x in box.cod]
        used += 1

    while used < budget:
        qs = [i for i, k in enumerate(kinds) if k == "q"]
        pairs = [i for i in qs if i + 1 in qs]
        r = rng.random()
        want_sym = not has_symbol or rng.random() < 0.6
        if r < 0.38 and qs:
            cls = rng.choice([g.Rx, g.Ry, g.Rz])
            phase = rand_expr(rng, syms) if want_sym else rng.choice(
                [0.25, 0.5, 1, 0.3])
            has_symbol = has_symbol or want_sym
            place(cls(phase), rng.choice(qs))
        elif r < 0.55 and pairs:
            cls = rng.choice([g.CRz, g.CRx, g.CU1])
            phase = rand_expr(rng, syms) if want_sym else 0.25
            has_symbol = has_symbol or want_sym
            place(cls(phase), rng.choice(pairs))
        elif r < 0.70 and qs:
            box = rng.choice([g.H, g.X, g.Z, g.S, g.T, g.S.dagger(),
                              g.T.dagger(), g.S.dagger(), g.T.dagger()])
            place(box, rng.choice(qs))
        elif r < 0.78 and pairs:
            place(rng.choice([g.CX, g.CZ, g.SWAP]), rng.choice(pairs))
        elif r < 0.93:
            flavour = rng.randrange(6 if mixed else 4)
            if flavour == 0:
                box = g.scalar(rand_expr(rng, syms))
            elif flavour == 1:
                box = g.sqrt(radicand(rng, syms))
            elif flavour == 2:
                box = g.scalar(rand_expr(rng, syms) * rng.choice([1j, 1, 0.5 + 0.5j]))
            elif flavour == 3:
                box = g.scalar(rng.choice([0.5, 2, 1j]))
            elif flavour == 4:
                box = g.MixedScalar(rand_expr(rng, syms))
            else:
                box = g.scalar(rand_expr(rng, syms), is_mixed=True)
            has_symbol = has_symbol or flavour != 3
            place(box, rng.randint(0, len(kinds)))
        elif mixed and qs and rng.random() < 0.6:
            place(rng.choice([qc.Measure(), qc.Discard()]), rng.choice(qs))
        elif mixed and "b" in kinds and rng.random() < 0.7:
            off = kinds.index("b")
            place(classical_gate(rng, syms, 1, rng.choice([1, 1, 2])
                                 if len(kinds) < 3 else 1), off)
            has_symbol = True
        elif qs and rng.random() < 0.5:
            place(g.Bra(rng.randint(0, 1)), rng.choice(qs))
    if not has_symbol:
        place(g.scalar(rand_expr(rng, syms)), 0)
    if mixed and not d.is_mixed:
        qs = [i for i, k in enumerate(kinds) if k == "q"]
        if qs:
            place(rng.choice([qc.Measure(), qc.Discard()]), rng.choice(qs))
        else:
            place(g.MixedScalar(rand_expr(rng, syms)), 0)
    return d, {}


def classical_gate(rng, syms, n_in, n_out, dagger=None):
    from discopy.quantum import gates as g
    dagger = rng.random() < 0.4 if dagger is None else dagger
    size = 2 ** (n_in + n_out)
    forced = rng.randrange(size) if rng.random() < 0.6 else 0
    entries = [rand_expr(rng, syms, functions=False)
               if (i == forced or (rng.random() < 0.4
                                   and not (i == 0 and forced and rng.random() < 0.7)))
               else rng.choice([0, 1, 0.5, 2, 1]) for i in range(size)]
    name = rng.choice("fgh")
    if dagger:
        return g.ClassicalGate(name, n_out, n_in, entries).dagger()
    return g.ClassicalGate(name, n_in, n_out, entries)


def gen_classical(rng, syms):
    from discopy.quantum import circuit as qc, gates as g
    from discopy.quantum.circuit import bit, Id
    n = rng.choice([0, 1, 1, 2])
    width = n
    d = Id(bit ** n)
    if n and rng.random() < 0.15:
        d = g.Bits(*[rng.randint(0, 1) for _ in range(n)])
    for _ in range(rng.randint(1, 3)):
        span = rng.randint(0, min(2, width))
        off = rng.randint(0, width - span)
        out = rng.randint(0 if width - span else 1, max(1, min(2, 3 - (width - span))))
        if span + out > 3:
            out = 3 - span
        box = classical_gate(rng, syms, span, out)
        d = d >> Id(bit ** off) @ box @ Id(bit ** (width - off - span))
        width = width - span + out
    if width and rng.random() < 0.08:
        d = d >> Id(bit ** (width - 1)) @ g.Bits(rng.randint(0, 1)).dagger()
    elif width == 1 and rng.random() < 0.08:
        d = d >> g.Copy()
    elif width == 2 and rng.random() < 0.1:
        d = d >> g.Match()
    if rng.random() < 0.3:
        d = d @ g.Rx(rand_expr(rng, syms))
    return d, {}


# -- zx ----------------------------------------------------------------------
def gen_zx(rng, syms):
    from discopy.quantum import zx
    from discopy.rigid import PRO
    width = rng.randint(0, 2)
    d = zx.Id(width)
    has_symbol = False
    for k in range(rng.randint(1, 5)):
        r = rng.random()
        if r < 0.65:
            span = rng.randint(0, min(2, width))
            off = rng.randint(0, width - span)
            out = rng.randint(0, max(0, min(2, 3 - (width - span))))
            want = not has_symbol or rng.random() < 0.6
            phase = rand_expr(rng, syms, functions=False) if want\
                else rng.choice([0, 0.25, 0.5, 1])
            has_symbol = has_symbol or want
            box = rng.choice([zx.Z, zx.X])(span, out, phase)
            d = d >> zx.Id(off) @ box @ zx.Id(width - off - span)
            width = width - span + out
        elif r < 0.75 and width:
            off = rng.randrange(width)
            d = d >> zx.Id(off) @ zx.H @ zx.Id(width - off - 1)
        elif r < 0.82 and width >= 2:
            off = rng.randrange(width - 1)
            d = d >> zx.Id(off) @ zx.SWAP @ zx.Id(width - off - 2)
        else:
            want = not has_symbol or rng.random() < 0.7
            data = rand_expr(rng, syms, functions=False) if want\
                else rng.choice([0.5, 2, 1j])
            has_symbol = has_symbol or want
            d = d @ zx.scalar(data)
    if not has_symbol:
        d = d @ zx.scalar(rand_expr(rng, syms, functions=False))
    return d, {}


# -- generic nested data (no evaluation) --------------------------------------
def gen_generic(rng, syms):
    from discopy.quantum import circuit as qc, gates as g
    from discopy.quantum.circuit import qubit, Id

    def payload(depth=0):
        r = rng.random()
        if depth >= 2 or r < 0.35:
            return rand_expr(rng, syms) if rng.random() < 0.7 else rand_number(rng)
        if r < 0.6:
            return [payload(depth + 1) for _ in range(rng.randint(1, 3))]
        if r < 0.75:
            return tuple(payload(depth + 1) for _ in range(rng.randint(1, 2)))
        return {rng.choice(["Alice", "Bob", "k"]) + str(i): payload(depth + 1)
                for i in range(rng.randint(1, 2))}
    n = rng.randint(1, 2)
    d = Id(qubit ** n)
    has_dict = False
    for _ in range(rng.randint(1, 3)):
        off = rng.randrange(n)
        if rng.random() < 0.3:
            box = rng.choice([g.Rx, g.Rz])(rand_expr(rng, syms))
        else:
            data = payload()
            if not sym.payload_symbols(data):
                data = [data, rand_expr(rng, syms)]
            box = qc.Box(rng.choice("abc"), qubit, qubit, data=data)
            if rng.random() < 0.3:
                box = box.dagger()
        d = d >> Id(qubit ** off) @ box @ Id(qubit ** (n - off - 1))
    has_dict = any(_has_mapping(b.data) for b in d.boxes)
    return d, {"has_dict": has_dict}


def _has_mapping(payload):
    if isinstance(payload, dict):
        return True
    if isinstance(payload, (list, tuple)):
        return any(_has_mapping(p) for p in payload)
    return False


ARMS = ["tensor", "circuit-pure", "circuit-mixed", "zx", "circuit-pure",
        "classical", "tensor", "circuit-pure", "circuit-mixed", "zx",
        "generic", "circuit-pure", "tensor", "classical"]


def generate(rng, arm, syms):
    if arm == "tensor":
        return gen_tensor(rng, syms)
    if arm == "circuit-pure":
        return gen_circuit(rng, syms, mixed=False)
    if arm == "circuit-mixed":
        return gen_circuit(rng, syms, mixed=True)
    if arm == "classical":
        return gen_classical(rng, syms)
    if arm == "zx":
        return gen_zx(rng, syms)
    return gen_generic(rng, syms)


# --------------------------------------------------------------------------
# substitutions
# --------------------------------------------------------------------------
def rand_value(rng, flavour):
    if flavour == "float":
        return rng.choice([0.5, 0.3, -0.7, 0.123, 1.25, 2.0, 0.0, 1 / 3])
    if flavour == "int":
        return rng.choice([0, 1, 2, -1, 3])
    return rng.choice([sympy.Rational(1, 2), sympy.Rational(2, 3), sympy.Float(0.3),
                       sympy.Integer(1), sympy.Integer(0), sympy.Rational(-1, 4),
                       sympy.Float(1.5)])


def rand_any_number(rng):
    return rand_value(rng, rng.choice(["float", "int", "sympy"]))


def make_substitutions(rng, syms, present):
    """ List of (style, [args, ...]) - each args tuple is one subs call. """
    present = sym.sort_symbols(present)
    fresh = _S["fresh"]
    out = []
    x = rng.choice(present)
    rest = [s for s in present if s != x]
    out.append(("float", [(x, rand_value(rng, "float"))]))
    out.append(("int", [(rng.choice(present), rand_value(rng, "int"))]))
    out.append(("sympy-number", [(rng.choice(present), rand_value(rng, "sympy"))]))
    target = rng.choice(rest + fresh)
    out.append(("symbol", [(x, target)]))
    y = rng.choice(present + fresh)
    expr = rng.choice([2 * y + 1, y ** 2, y / 2 - 0.25, x + 1, y * rng.choice(fresh),
                       sympy.Rational(1, 3) * y])
    out.append(("expression", [(rng.choice(present), expr)]))
    order = list(present)
    rng.shuffle(order)
    total = [(s, rand_any_number(rng)) for s in order]
    out.append(("pairs-total", [(total,)]))
    if len(present) >= 2:
        k = rng.randint(1, len(present) - 1)
        pairs = []
        for s in order[:k]:
            pairs.append((s, rng.choice([rand_any_number(rng), rng.choice(fresh),
                                         order[-1] * 2])))
        out.append(("pairs-partial", [(pairs,)]))
        out.append(("partial-then-total",
                    [(order[0], rand_any_number(rng)),
                     ([(s, rand_any_number(rng)) for s in order[1:]],)]))
    else:
        extra = rng.choice(fresh)
        out.append(("partial-then-total",
                    [(order[0], extra + 0.5), (extra, rand_any_number(rng))]))
    if len(present) >= 2 and rng.random() < 0.5:
        a, b = order[0], order[1]
        out.append(("pairs-chained", [([(a, b), (b, rand_any_number(rng))],)]))
    return out


# --------------------------------------------------------------------------
# observation helpers
# --------------------------------------------------------------------------
def evaluate(arm, d, mixed):
    if arm == "zx":
        return sym.zx_eval(d)
    if arm == "tensor":
        return d.eval().array
    return d.eval(mixed=mixed).array


def tensor_of(arm, d, mixed):
    if arm == "tensor":
        return d.eval()
    return d.eval(mixed=mixed)


def box_view(box):
    view = {"cls": clsname(box), "dagger": bool(getattr(box, "is_dagger", False))}
    if hasattr(box, "is_mixed") and clsname(box).startswith("quantum.")\
            and not clsname(box).startswith("quantum.zx"):
        view["is_mixed"] = bool(box.is_mixed)
    return view


DATA_FREE_NAME = ("quantum.gates.ClassicalGate", "tensor.Box",
                  "quantum.circuit.Box")


def attribute_changes(ctx, d, new, base):
    """ Per-box attribute comparison; returns the list of changes. """
    changes = []
    ok_shape = (new.dom == d.dom and new.cod == d.cod
                and len(new.boxes) == len(d.boxes)
                and list(new.offsets) == list(d.offsets))
    op = base["op"]
    expect(ctx, "shape-preserved", ok_shape, after=lambda: safe_repr(new, 600),
           **base)
    if not ok_shape:
        return None
    for i, (old, cur) in enumerate(zip(d.boxes, new.boxes)):
        a, b = box_view(old), box_view(cur)
        mine = []
        if a["cls"] != b["cls"]:
            mine.append([a["cls"], "class", a["cls"], b["cls"], op])
        if old.dom != cur.dom or old.cod != cur.cod:
            mine.append([a["cls"], "dom/cod", safe_repr((old.dom, old.cod), 80),
                         safe_repr((cur.dom, cur.cod), 80), op])
        if a["dagger"] != b["dagger"]:
            mine.append([a["cls"], "is_dagger", a["dagger"], b["dagger"], op])
        if a.get("is_mixed") != b.get("is_mixed"):
            mine.append([a["cls"], "is_mixed", a.get("is_mixed"),
                         b.get("is_mixed"), op])
        if a["cls"] in DATA_FREE_NAME and old.name != cur.name:
            mine.append([a["cls"], "name", safe_repr(old.name, 60),
                         safe_repr(cur.name, 60), op])
        if not sym.box_symbols(old) and not mine:
            try:
                same = bool(old == cur)
            except Exception:
                same = False
            if not same and box_view(old) == box_view(cur):
                try:
                    vectors, _ = payload_vectors([old.data], [cur.data], [{}])
                    same = vectors is not None and all(
                        sym.close(x, y) for x, y in vectors)
                except Exception:
                    same = False
            if not same:
                mine.append([a["cls"], "untouched-box-equal", safe_repr(old, 80),
                             safe_repr(cur, 80), op])
        if mine:
            for change in mine:
                report(ctx, "attributes-preserved", change=change, index=i,
                       after=safe_repr(new, 400), **base)
        else:
            ctx.ok("attributes-preserved")
        changes += mine
    return changes


def payload_vectors(old_payloads, new_payloads, envs):
    """ Numeric vectors of two lists of payloads at each env, or a reason. """
    a = [x for p in old_payloads for x in sym.flat_leaves(p)]
    b = [x for p in new_payloads for x in sym.flat_leaves(p)]
    if len(a) != len(b):
        return None, "payload sizes {} vs {}".format(len(a), len(b))
    return list(zip(sym.numeric_many(a, envs), sym.numeric_many(b, envs))), None


def check_box_data(ctx, monitor, d, new, args_list, envs, base):
    """ new payloads == sympy substitution of the old payloads, box by box. """
    model_symbols = set()
    for old, cur in zip(d.boxes, new.boxes):
        model = [old.data if hasattr(old, "data") else None]
        for args in args_list:
            model = [sym.subs_payload(p, args) for p in model]
        model_symbols |= set().union(*[sym.payload_symbols(p) for p in model])
        if not sym.box_symbols(old):
            continue
        try:
            vectors, reason = payload_vectors(model, [cur.data], envs)
        except sym.Unresolved as err:
            vectors, reason = None, "unresolved: {}".format(err)
        ok = vectors is not None and all(sym.close(x, y) for x, y in vectors)
        expect(ctx, monitor, ok, box=clsname(old), reason=reason,
               container=type(old.data).__name__,
               expected=lambda: safe_repr(model, 300),
               got=lambda: safe_repr(cur.data, 300), **base)
    return model_symbols


def sympy_number_rotations(diagram):
    from discopy.quantum import gates as g
    out = []
    for box in diagram.boxes:
        if isinstance(box, g.Rotation) and isinstance(box.data, sympy.Basic)\
                and not box.data.free_symbols:
            out.append(clsname(box))
    return out


def rescue(diagram):
    """
    The substituted diagram with symbol-free sympy phases of rotations cast to
    float by the harness, so that the semantic comparison is not masked by
    the evaluation crash already reported by `substituted-evaluates`.
    """
    from discopy.quantum import gates as g
    out = diagram.id(diagram.dom)
    for left, box, right in diagram.layers:
        if isinstance(box, g.Rotation) and isinstance(box.data, sympy.Basic)\
                and not box.data.free_symbols:
            box = type(box)(float(box.data))
        out = out >> diagram.id(left) @ box @ diagram.id(right)
    return out


def apply_subs(d, args_list):
    cur = d
    for args in args_list:
        cur = cur.subs(*args)
    return cur


def locate_failing(d, call, outer, symbols=()):
    """
    Which boxes raise when the operation is applied box by box, and which of
    them raised the exception seen by the whole call (first with the same
    type and message).  Returns witness fields.
    """
    failing = []
    for box in d.boxes:
        try:
            call(box)
        except Exception as err:
            failing.append((clsname(box),
                            type(getattr(box, "data", None)).__name__,
                            type(err).__name__, str(err)[:300],
                            bool(sym.box_symbols(box) & set(symbols))))
    same = [f for f in failing
            if f[2] == type(outer).__name__ and f[3] == str(outer)[:300]]
    first = (same or failing or [(None, None, None, None, None)])[0]
    return dict(failing_boxes=[f[0] for f in failing],
                failing_containers=[f[1] for f in failing],
                raising_box=first[0], raising_container=first[1],
                raising_box_has_symbol=first[4])


def tensor_subs_checks(ctx, value, args_list, model_vecs, envs, base):
    """
    eval(d).subs(s) by the library's own Tensor.subs against the sympy model:
    `tensor-subs-raw` on the evaluation as it is (a CQMap is also tried as
    such: `cqmap-subs-model`), `tensor-subs-model` on the same array with every
    entry sympified first, so that the comparison is not masked by what
    Tensor.subs does to plain numbers.
    """
    from discopy.tensor import Tensor
    is_cq = type(value).__name__ == "CQMap"
    if is_cq:
        one_tensor_subs(ctx, "cqmap-subs-model", value, args_list, model_vecs, envs, base)
        value = value.utensor
    one_tensor_subs(ctx, "tensor-subs-raw", value, args_list, model_vecs, envs, base)
    flat = [sympy.sympify(x) for x in
            numpy.asarray(value.array, dtype=object).flatten()]
    try:
        clean = Tensor(value.dom, value.cod, flat)
    except Exception:
        ctx.count("tensor-subs-model-could-not-build-input")
        return
    one_tensor_subs(ctx, "tensor-subs-model", clean, args_list, model_vecs, envs, base)


def one_tensor_subs(ctx, monitor, value, args_list, model_vecs, envs, base):
    flat0 = list(numpy.asarray(value.array, dtype=object).flatten())
    plain = [i for i, x in enumerate(flat0) if not isinstance(x, sympy.Basic)]
    extra = dict(plain_entries=len(plain),
                 list_style=any(len(a) == 1 for a in args_list),
                 value_class=type(value).__name__)
    try:
        cur = value
        for args in args_list:
            cur = cur.subs(*args)
        got = cur.array
    except Exception as err:
        report(ctx, monitor, failure="exception", exception=type(err).__name__,
               message=str(err)[:300], **extra, **base)
        return
    try:
        pairs = list(zip(sym.numeric_many(got, envs), model_vecs))
    except sym.Unresolved as err:
        report(ctx, monitor, failure="unresolved-symbols", reason=str(err),
               **extra, **base)
        return
    if any(x.shape != y.shape for x, y in pairs):
        report(ctx, monitor, failure="shape-mismatch", **extra, **base)
        return
    bad = set()
    for x, y in pairs:
        bad |= {int(i) for i in numpy.nonzero(
            ~numpy.isclose(x, y, rtol=sym.RTOL, atol=sym.ATOL))[0]}
    expect(ctx, monitor, not bad, failure="value-mismatch",
           mismatch_only_at_plain_entries=bad <= set(plain),
           mismatching=sorted(bad)[:20], got=lambda: safe_repr(got, 300),
           **extra, **base)


def compare_values(ctx, monitor, got_array, model_vecs, envs, changes, **witness):
    """ got (numbers or expressions) vs the model vectors at each env. """
    try:
        pairs = list(zip(sym.numeric_many(got_array, envs), model_vecs))
    except sym.Unresolved as err:
        report(ctx, monitor, failure="unresolved-symbols", reason=str(err),
                 attr_changes=changes, **witness)
        return False
    if any(x.shape != y.shape for x, y in pairs):
        report(ctx, monitor, failure="shape-mismatch",
                 shapes=[list(pairs[0][0].shape), list(pairs[0][1].shape)],
                 attr_changes=changes, **witness)
        return False
    ok = all(sym.close(x, y) for x, y in pairs)
    return expect(ctx, monitor, ok, failure="value-mismatch",
                      max_diff=lambda: max(sym.max_diff(x, y) for x, y in pairs),
                      attr_changes=changes, **witness)


# --------------------------------------------------------------------------
# the case
# --------------------------------------------------------------------------
def run_case(rng, ctx):
    arm = ARMS[(ctx.index + ctx.shard) % len(ARMS)]
    pool = _S["pool"]
    syms = rng.sample(pool, rng.choice([1, 2, 2, 3]))
    d, info = generate(rng, arm, syms)
    present = sym.diagram_symbols(d)
    if not present:
        ctx.count("generated-without-symbol")
        return
    ctx.count("arm:" + arm)
    drepr = safe_repr(d, 700)
    classes = sorted({clsname(b) for b in d.boxes if sym.box_symbols(b)})

    # -- free symbols ---------------------------------------------------------
    expect(ctx, "free-symbols-exact", set(d.free_symbols) == present, arm=arm,
               reported=lambda: safe_repr(sym.sort_symbols(d.free_symbols)),
               expected=lambda: safe_repr(sym.sort_symbols(present)),
               diagram=drepr, has_dict=info.get("has_dict"))
    for box in d.boxes:
        expect(ctx, "free-symbols-exact",
                   set(box.free_symbols) == sym.box_symbols(box), arm=arm,
                   box=clsname(box), diagram=lambda: safe_repr(box, 300),
                   has_dict=info.get("has_dict"))

    # -- symbolic evaluation of the original ------------------------------------
    evaluable = arm != "generic"
    mixed = False
    if arm in ("circuit-pure", "circuit-mixed", "classical"):
        mixed = bool(d.is_mixed) or (arm == "circuit-pure"
                                     and len(d.cod) + len(d.dom) <= 2
                                     and rng.random() < 0.25)
    original = original_tensor = None
    if evaluable:
        try:
            original = evaluate(arm, d, mixed)
            if arm != "zx":
                original_tensor = tensor_of(arm, d, mixed)
        except sym.Unsupported:
            evaluable = False
        except Exception as err:
            # evaluating a symbolic diagram is C09/C11/C12's business
            ctx.refuse("symbolic-eval-of-original:" + type(err).__name__)
            evaluable = False

    reached = 0
    subs_done = []
    substitutions = make_substitutions(rng, syms, present)
    if arm == "circuit-mixed":        # symbolic CQ evaluation is the expensive one
        keep = [s for s in substitutions if s[0] in ("float", "pairs-total")]
        rest = [s for s in substitutions if s[0] not in ("float", "pairs-total")]
        substitutions = keep + rng.sample(rest, 2)
    for style, args_list in substitutions:
        reached += one_substitution(
            ctx, rng, arm, d, drepr, classes, present, style, args_list,
            evaluable, mixed, original, original_tensor, info)
        subs_done.append(style)
    reached += one_lambdify(ctx, rng, arm, d, drepr, classes, present,
                            evaluable, mixed, original, info)
    if arm == "tensor" and not info.get("has_dict"):
        bubble_facet(ctx, rng, d, drepr, present)
    if reached:
        ctx.mark(arm + "|" + drepr)
    if ctx.index < 14:
        ctx.sample(arm=arm, diagram=drepr, symbols=safe_repr(sym.sort_symbols(present)),
                   styles=subs_done)


def bubble_facet(ctx, rng, d, drepr, present):
    """
    The tensor diagram once more, inside a bubble with an entrywise polynomial
    (which commutes with substitution).  A bubble is a box of a tensor diagram
    whose parameters are those of its inside: it reports them, substitution
    and lambdify reach them, and the result evaluates to numbers.
    """
    name, func = rng.choice([("x*x+1", lambda x: x * x + 1),
                             ("2x-1", lambda x: 2 * x - 1),
                             ("x^3", lambda x: x ** 3)])
    base = dict(op="bubble", arm="tensor", diagram=drepr, func=name)
    try:
        bubble = d.bubble(func=func)
        tail = type(d).id(bubble.cod)
        whole = bubble >> tail
    except Exception as err:
        ctx.count("bubble-facet-unavailable:" + type(err).__name__)
        return
    expect(ctx, "free-symbols-exact", set(bubble.free_symbols) == present
           and set(whole.free_symbols) == present, box="tensor.Bubble",
           reported=lambda: safe_repr(sym.sort_symbols(whole.free_symbols)),
           expected=lambda: safe_repr(sym.sort_symbols(present)), **base)
    ordered = sym.sort_symbols(present)
    values = [rand_value(rng, "float") for _ in ordered]
    pairs = list(zip(ordered, values))
    try:
        inner = sym.numeric(numpy.asarray(d.subs(pairs).eval().array).flatten())
    except Exception:
        ctx.count("bubble-facet-inside-not-numeric")
        return
    want = numpy.array([func(x) for x in inner])
    for how, make in (("subs", lambda: whole.subs(pairs)),
                      ("lambdify", lambda: whole.lambdify(*ordered)(*values))):
        try:
            closed = make()
            got = sym.numeric(numpy.asarray(closed.eval().array).flatten())
        except Exception as err:
            report(ctx, "total-evaluates-to-numbers", failure="exception",
                   exception=type(err).__name__, message=str(err)[:300],
                   how=how, sigma=safe_repr(pairs, 200), **base)
            continue
        expect(ctx, "total-reports-no-symbols", not closed.free_symbols,
               reported=lambda: safe_repr(closed.free_symbols), how=how, **base)
        expect(ctx, "eval-commutes", got.shape == want.shape
               and sym.close(got, want), how=how, sigma=safe_repr(pairs, 200),
               got=lambda: safe_repr(got[:8], 200),
               expected=lambda: safe_repr(want[:8], 200), **base)
    ctx.count("bubble-facets")


def one_substitution(ctx, rng, arm, d, drepr, classes, present, style,
                     args_list, evaluable, mixed, original, original_tensor, info):
    sigma = safe_repr(args_list, 400)
    base = dict(op="subs", style=style, arm=arm, diagram=drepr, sigma=sigma,
                classes=classes, ndarray_payload=bool(info.get("ndarray")))
    try:
        new = apply_subs(d, args_list)
    except Exception as err:
        report(ctx, "subs-returns", exception=type(err).__name__,
               message=str(err)[:300], **locate_failing(
                   d, lambda box: apply_subs(box, args_list), err), **base)
        subs_box_by_box(ctx, rng, d, args_list, present, base)
        return 0
    ctx.ok("subs-returns")
    changes = attribute_changes(ctx, d, new, base)
    if changes is None:
        return 0
    if arm != "generic" and arm != "tensor" and arm != "zx":
        expect(ctx, "mixedness-preserved", bool(new.is_mixed) == bool(d.is_mixed),
                   failure="flag", attr_changes=changes, **base)
    # model payloads and the symbols that must remain
    sub_syms = set(present)
    for args in args_list:
        pairs = args[0] if len(args) == 1 else [args]
        for _, value in pairs:
            if isinstance(value, sympy.Basic):
                sub_syms |= value.free_symbols
    envs = sym.random_points(rng, sub_syms, n=3)
    remaining = check_box_data(ctx, "subs-box-data", d, new, args_list, envs,
                               base)
    expect(ctx, "free-symbols-after", set(new.free_symbols) == remaining,
               reported=lambda: safe_repr(sym.sort_symbols(new.free_symbols)),
               expected=lambda: safe_repr(sym.sort_symbols(remaining)),
               after=lambda: safe_repr(new, 400), **base)
    total = not remaining
    if total:
        expect(ctx, "total-reports-no-symbols", not new.free_symbols,
                   reported=lambda: safe_repr(new.free_symbols),
                   after=lambda: safe_repr(new, 400), **base)
    if not evaluable:
        return 1 if arm == "generic" else 0
    # the model: sympy substitution of the symbolic evaluation
    model = list(numpy.asarray(original, dtype=object).flatten())
    for args in args_list:
        model = sym.subs_array(model, args)
    # Tensor.subs / CQMap.subs against the same model
    try:
        model_vecs = sym.numeric_many(model, envs)
    except sym.Unresolved:
        ctx.count("model-unresolved")
        return 0
    if original_tensor is not None:
        tensor_subs_checks(ctx, original_tensor, args_list, model_vecs, envs,
                           base)
    # evaluation of the substituted diagram
    got = None
    try:
        got = evaluate(arm, new, mixed)
        ctx.ok("substituted-evaluates")
    except Exception as err:
        rotations = sympy_number_rotations(new) if arm != "zx" else []
        report(ctx, "substituted-evaluates", failure="exception",
                 exception=type(err).__name__, message=str(err)[:300],
                 sympy_number_rotations=rotations, total=total,
                 after=safe_repr(new, 400), **base)
        if rotations:
            try:
                got = evaluate(arm, rescue(new), mixed)
                ctx.count("eval-commutes-via-harness-cast")
            except Exception:
                ctx.count("eval-commutes-masked-by-eval-exception")
        else:
            ctx.count("eval-commutes-masked-by-eval-exception")
    if got is None:
        return 0
    compare_values(ctx, "eval-commutes", got, model_vecs, envs, changes,
                   after=lambda: safe_repr(new, 400), **base)
    if total:
        expect(ctx, "total-evaluates-to-numbers", sym.all_numbers(got),
                   got=lambda: safe_repr(got, 300), **base)
    return 1


def one_lambdify(ctx, rng, arm, d, drepr, classes, present, evaluable, mixed,
                 original, info):
    present = sym.sort_symbols(present)
    xs = list(present)
    rng.shuffle(xs)
    if rng.random() < 0.3 and len(xs) > 1:
        # a strict subset, only if no box is left half-substituted (partial
        # lambdify inside one box depends on sympy's namespace handling)
        subset = set(xs[:rng.randint(1, len(xs) - 1)])
        if all(sym.box_symbols(b) <= subset or not (sym.box_symbols(b) & subset)
               for b in d.boxes):
            xs = [x for x in xs if x in subset]
            ctx.count("lambdify-on-a-strict-subset")
    if rng.random() < 0.2:
        xs.insert(rng.randint(0, len(xs)), _S["fresh"][0])
    if info.get("has_dict"):
        ctx.count("lambdify-skipped-dict-payload")
        return 0
    # the lambdified diagram is a function: it is kept and called several
    # times with different values, and every call is checked
    ncalls = 3 if ctx.index % 2 else 2
    values = [[rand_value(rng, rng.choice(["float", "float", "int"]))
               for _ in xs] for _ in range(ncalls)]
    if ncalls == 3:
        values[2] = list(values[0])          # and once more the first point
    try:
        function = d.lambdify(*xs)
    except Exception:
        function = None                      # reported by the first call
    reached = 0
    for call, vs in enumerate(values):
        reached += one_call(ctx, rng, arm, d, drepr, classes, present,
                            evaluable, mixed, original, info, function, xs,
                            vs, call)
    if reached and ncalls >= 2:
        sum_called_again(ctx, arm, d, drepr, xs, values)
    # histories: the SAME diagram object (hence the same box objects) is
    # lambdified once more with its symbols listed in another order, or
    # behind a symbol that does not occur
    xs2 = xs[1:] + xs[:1]
    if xs2 == xs or rng.random() < 0.3:
        xs2 = [_S["fresh"][1]] + [
            x for x in xs2 if x is not _S["fresh"][1]]
    if reached and xs2 != xs:
        vs2 = [rand_value(rng, rng.choice(["float", "float", "int"]))
               for _ in xs2]
        try:
            function2 = d.lambdify(*xs2)
        except Exception:
            function2 = None
        one_call(ctx, rng, arm, d, drepr, classes, present, evaluable, mixed,
                 original, info, function2, xs2, vs2, ncalls)
        # ... and the first function still answers for ITS argument order
        if function is not None:
            one_call(ctx, rng, arm, d, drepr, classes, present, evaluable,
                     mixed, original, info, function, xs, values[0],
                     ncalls + 1)
        ctx.count("lambdified-again-in-another-symbol-order")
    return 1 if reached else 0


def sum_called_again(ctx, arm, d, drepr, xs, values):
    """
    The formal sum d + d lambdified ONCE and called at every point: every call
    (not only the first) gives a sum with as many terms as substituting gives,
    each term built like d.lambdify(*xs)(*vs).  Whatever raises here is only
    counted: raising is the subject of lambdify-returns on d itself.
    """
    try:
        total = d + d
        function = total.lambdify(*xs)
        rows = [(function(*vs), d.lambdify(*xs)(*vs),
                 total.subs(list(zip(xs, vs)))) for vs in values]
    except Exception as err:
        ctx.count("sum-lambdify-raised:" + type(err).__name__)
        return
    for call, (got, one, sub) in enumerate(rows):
        terms = getattr(got, "terms", None)
        wanted = getattr(sub, "terms", None)
        ok = terms is not None and wanted is not None\
            and len(terms) == len(wanted) == 2
        if ok:
            for term in terms:
                changes = structural_changes(one, term)
                ok = ok and changes is not None and not changes\
                    and safe_repr(term, 4000) == safe_repr(one, 4000)
        expect(ctx, "lambdify-equals-subs-diagram", ok, failure="sum-terms",
               op="lambdify", arm=arm, diagram=drepr, call=call,
               history="d + d lambdified once, called at every point",
               n_terms=None if terms is None else len(terms),
               n_terms_substituted=None if wanted is None else len(wanted),
               lambdified=lambda: safe_repr(got, 400))
    ctx.count("sums-lambdified-once-and-called-again")


def one_call(ctx, rng, arm, d, drepr, classes, present, evaluable, mixed,
             original, info, function, xs, vs, call):
    sigma = safe_repr(list(zip(xs, vs)), 300)
    base = dict(op="lambdify", style="lambdify", arm=arm, diagram=drepr,
                sigma=sigma, classes=classes, call=call,
                ndarray_payload=bool(info.get("ndarray")))
    pairs = list(zip(xs, vs))
    envs = sym.random_points(rng, set(present) | set(xs), n=2)
    try:
        sub = d.subs(pairs)
    except Exception:
        sub = None            # reported by the substitution monitors
    try:
        if function is None:
            function = d.lambdify(*xs)       # raises again, with its reason
        lam = function(*vs)
    except Exception as err:
        report(ctx, "lambdify-returns", exception=type(err).__name__,
               message=str(err)[:300], **locate_failing(
                   d, lambda box: box.lambdify(*xs)(*vs), err, xs), **base)
        if call == 0:
            box_by_box(ctx, d, xs, vs, pairs, envs, base)
        return 0
    ctx.ok("lambdify-returns")
    changes = attribute_changes(ctx, d, lam, base)
    if changes is None:
        return 0
    if arm not in ("generic", "tensor", "zx"):
        expect(ctx, "mixedness-preserved", bool(lam.is_mixed) == bool(d.is_mixed),
                   failure="flag", attr_changes=changes, **base)
    remaining = check_box_data(ctx, "lambdify-box-data", d, lam, [(pairs,)],
                               envs, base)
    expect(ctx, "free-symbols-after", set(lam.free_symbols) == remaining,
               reported=lambda: safe_repr(sym.sort_symbols(lam.free_symbols)),
               expected=lambda: safe_repr(sym.sort_symbols(remaining)),
               after=lambda: safe_repr(lam, 400), **base)
    total = not remaining
    if total:
        expect(ctx, "total-reports-no-symbols", not lam.free_symbols,
                   reported=lambda: safe_repr(lam.free_symbols),
                   after=lambda: safe_repr(lam, 400), **base)
    # as diagrams
    if sub is not None:
        sub_changes = structural_changes(sub, lam)
        ok = sub_changes is not None and not sub_changes
        if ok:
            try:
                vectors, reason = payload_vectors(
                    [getattr(b, "data", None) for b in sub.boxes],
                    [getattr(b, "data", None) for b in lam.boxes], envs)
                ok = vectors is not None and all(
                    sym.close(x, y) for x, y in vectors)
            except sym.Unresolved:
                ok = False
        expect(ctx, "lambdify-equals-subs-diagram", ok, failure="flag",
                   attr_changes=sub_changes, lambdified=lambda: safe_repr(lam, 400),
                   substituted=lambda: safe_repr(sub, 400), **base)
        try:
            ctx.count("library-eq-agrees" if lam == sub
                      else "library-eq-differs")
        except Exception:
            ctx.count("library-eq-raises")
    if not evaluable:
        return 1 if arm == "generic" else 0
    try:
        got = evaluate(arm, lam, mixed)
    except Exception as err:
        report(ctx, "lambdify-eval-model", failure="exception",
               exception=type(err).__name__, message=str(err)[:300],
               sympy_number_rotations=sympy_number_rotations(lam)
               if arm != "zx" else [],
               after=safe_repr(lam, 400), attr_changes=changes, **base)
        return 0
    try:
        model_vecs = sym.numeric_many(sym.subs_array(original, (pairs,)), envs)
    except sym.Unresolved:
        ctx.count("model-unresolved")
        return 0
    compare_values(ctx, "lambdify-eval-model", got, model_vecs, envs, changes,
                   after=lambda: safe_repr(lam, 400), **base)
    if total:
        expect(ctx, "total-evaluates-to-numbers", sym.all_numbers(got),
                   got=lambda: safe_repr(got, 300), **base)
    if sub is not None:
        try:
            sub_value = evaluate(arm, sub, mixed)
        except Exception:
            ctx.count("lambdify-equals-subs-eval-masked-by-eval-exception")
            sub_value = None
        if sub_value is not None:
            compare_values(ctx, "lambdify-equals-subs-eval", got,
                           sym.numeric_many(sub_value, envs),
                           envs, structural_changes(sub, lam),
                           after=lambda: safe_repr(lam, 400), **base)
    return 1


def structural_changes(a, b):
    """ None if shapes differ, else list of per-box flag/class differences. """
    if not (a.dom == b.dom and a.cod == b.cod and len(a.boxes) == len(b.boxes)
            and list(a.offsets) == list(b.offsets)):
        return None
    out = []
    for old, cur in zip(a.boxes, b.boxes):
        x, y = box_view(old), box_view(cur)
        for key in ("cls", "dagger", "is_mixed"):
            if x.get(key) != y.get(key):
                out.append([x["cls"], {"cls": "class", "dagger": "is_dagger"}
                            .get(key, key), x.get(key), y.get(key), "subs"])
        if old.dom != cur.dom or old.cod != cur.cod:
            out.append([x["cls"], "dom/cod", None, None, "subs"])
    return out


def subs_box_by_box(ctx, rng, d, args_list, present, base):
    """ Payload monitor per box when the whole substitution raised. """
    envs = sym.random_points(rng, set(present) | set(_S["fresh"]), n=2)
    for box in d.boxes:
        if not sym.box_symbols(box):
            continue
        try:
            new = apply_subs(box, args_list)
        except Exception:
            ctx.count("box-subs-raised:" + clsname(box))
            continue
        if len(new.boxes) == 1:
            check_box_data(ctx, "subs-box-data", box, new, args_list, envs,
                           base)


def box_by_box(ctx, d, xs, vs, pairs, envs, base):
    """ lambdify == subs per box, evaluated even when the whole call raised. """
    for box in d.boxes:
        if not (sym.box_symbols(box) & set(xs)):
            continue
        try:
            lam = box.lambdify(*xs)(*vs)
        except Exception:
            ctx.count("box-lambdify-raised:" + clsname(box))
            continue
        try:
            sub = box.subs(pairs)
        except Exception:
            ctx.count("box-subs-raised:" + clsname(box))
            continue
        changes = structural_changes(sub, lam)
        ok = changes is not None and not changes
        if ok:
            try:
                vectors, _ = payload_vectors([sub.data], [lam.data], envs)
                ok = vectors is not None and all(
                    sym.close(x, y) for x, y in vectors)
            except sym.Unresolved:
                ok = False
        expect(ctx, "box-lambdify-equals-box-subs", ok, failure="flag",
                   attr_changes=changes, box=clsname(box),
                   lambdified=lambda: safe_repr(lam, 200),
                   substituted=lambda: safe_repr(sub, 200), **base)
