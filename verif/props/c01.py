"""
C01 - every diagram the library hands back is well-typed.

Monitors
  returned-diagram-well-typed   independent scan on every value returned or
                                yielded by a random program of API calls
  L1-constructed-diagram-ill-typed  the same scan at the exit of every
                                Diagram.__init__ (intermediate values too)
  hostile-request-refused-or-well-typed  near-miss requests must raise or
                                return a well-typed value
"""
import re

from verif import ops
from verif.gen import kits
from verif.models.typing import well_typed
from verif.instrument import safe_repr

ID = "C01"
L1_VIOLATES = True
RULE = ("case = (diagram class, random program of <=12 public operations on a "
        "pool of random diagrams, then 4 hostile near-miss requests); every "
        "returned/yielded/constructed diagram is scanned.  Non-trivial = the "
        "program returned >=5 diagrams with >=2 boxes; distinct by the repr "
        "of the first 6 results."
        "  L1 keeps every diagram built in a case and re-scans, at the end of the case, those whose fingerprint changed.")
SIZES = {"quick": (16, 380), "thorough": (16, 9500)}
TIMEOUT = {"quick": 600, "thorough": 5400}
COVER = {
    "discopy.monoidal:Diagram.__init__": 0.85,
    "discopy.monoidal:Diagram.then": 0.8,
    "discopy.monoidal:Diagram.tensor": 0.85,
    "discopy.monoidal:Diagram.__getitem__": 0.85,
    "discopy.cat:Arrow.__init__": 0.8,
    "discopy.cat:Arrow.then": 0.7,
    "discopy.cat:Arrow.__getitem__": 0.8,
    "discopy.rewriting:interchange": 0.8,
    "discopy.rewriting:snake_removal.unsnake": 0.15,
    "discopy.monoidal:Diagram.subclass.upgrade": 0.9,
}
MIN_EVALS = {"quick": {"returned-diagram-well-typed": 20000,
                       "hostile-request-refused-or-well-typed": 1000},
             "thorough": {"returned-diagram-well-typed": 500000}}
ASSUMPTIONS = [
    "the well-typedness oracle reads public attributes dom/cod/boxes/offsets/"
    "layers only and compares its own structural keys",
    "exceptions raised on valid requests are not C01 violations (they are "
    "counted as refusals and judged by the property owning that operation)"]

_KITS = None
_DIM_PAIR = re.compile(
    r"^cross-class-[a-z-]+:(tensor\+(zx|cartesian)|(zx|cartesian)\+tensor)$")


def dim_upgrade_drops_unit_wires(monitor, witness):
    """
    tensor.Diagram re-types its results with Dim.upgrade, and Dim(...) drops
    every object named 1 ("Dim(1) == Dim()"): tensoring a tensor.Diagram with a
    PRO-typed diagram (zx, cartesian: all wires are named 1) makes those wires
    vanish from dom/cod while the boxes and offsets still refer to them.
    """
    label = witness.get("request") or witness.get("during_request") or ""
    return monitor in ("hostile-request-refused-or-well-typed",
                       "L1-constructed-diagram-ill-typed")\
        and bool(_DIM_PAIR.match(label))


PREDICATES = {"dim_upgrade_drops_unit_wires": dim_upgrade_drops_unit_wires}


def setup(ctx):
    global _KITS
    _KITS = [kits.MonoidalKit(), kits.RigidKit(), kits.TensorKit(),
             kits.CircuitKit(), kits.ZXKit(), kits.BiclosedKit(),
             kits.CartesianKit(), kits.RigidKit(zmax=3), kits.MonoidalKit()]


def check(ctx, label, value, results):
    if isinstance(value, list):
        for item in value:
            check(ctx, label, item, results)
        return
    if not hasattr(value, "boxes"):
        return
    try:
        ok, why = well_typed(value)
    except Exception as err:
        ok, why = False, "scan raised {}: {}".format(type(err).__name__, err)
    ctx.expect("returned-diagram-well-typed", ok, operation=label, reason=why,
               diagram=lambda: safe_repr(value),
               offsets=lambda: getattr(value, "offsets", None))
    if ok:
        results.append(value)
    return ok


_OTHERS = {}


class Shadow:
    """
    A context that swallows another property's verdicts: its workload is run
    only so that the constructor hook (bound to C01's own context) sees every
    diagram built inside it.
    """
    def __init__(self, real, pid):
        self.tier, self.seed, self.shard = real.tier, real.seed, real.shard
        self.nshards, self.index, self.pid = real.nshards, real.index, pid
        self.current_request = None

    def expect(self, monitor, cond, **witness):
        return bool(cond)

    def __getattr__(self, name):
        return lambda *args, **kwargs: None


def foreign_workload(rng, ctx):
    """ Replay a case of another property's workload under the L1 hook. """
    import importlib
    pid = ["c04", "c06", "c07", "c10", "c18", "c05", "c02", "c16", "c17",
           "c13", "c09"][ctx.index // 13 % 11]
    if pid not in _OTHERS:
        mod = importlib.import_module("verif.props." + pid)
        shadow = Shadow(ctx, pid.upper())
        if hasattr(mod, "setup"):
            mod.setup(shadow)
        _OTHERS[pid] = mod
    shadow = Shadow(ctx, pid.upper())
    ctx.current_request = None
    try:
        _OTHERS[pid].run_case(rng, shadow)
        ctx.count("foreign_workload_cases:" + pid)
    except Exception as err:
        ctx.refuse("foreign-workload:{}:{}".format(pid, type(err).__name__))


def run_case(rng, ctx):
    if ctx.index % 13 == 12:
        return foreign_workload(rng, ctx)
    kit = _KITS[ctx.index % len(_KITS)] if ctx.index % 11 else None
    if kit is None:
        return cat_case(rng, ctx)
    pool = [kit.rand_diagram(rng, rng.randint(0, 4)) for _ in range(3)]
    results = []
    for d in pool:
        check(ctx, "generator", d, results)
    opset = ops.ops_for(kit)
    trace = []
    for _ in range(rng.randint(4, 12)):
        op = opset[rng.randrange(len(opset))]
        trace.append(op.__name__)

        def emit(label, value):
            if check(ctx, label, value, results) is False:
                return          # never feed an ill-typed value back into the pool
            if hasattr(value, "offsets") and len(value) <= 8\
                    and len(value.cod) <= 6 and len(value.dom) <= 6\
                    and type(value).__name__ != "Sum"\
                    and isinstance(value, kit.Diagram):
                pool.append(value)
        try:
            op(rng, kit, pool, emit)
        except Exception as err:
            ctx.refuse("{}:{}".format(op.__name__, type(err).__name__))
        if len(pool) > 12:
            del pool[:len(pool) - 12]
    if sum(1 for r in results if len(r.boxes) >= 2) >= 5:
        ctx.mark(kit.name + "|" + "|".join(safe_repr(r, 200) for r in results[3:9]))
    if ctx.index < 40:
        ctx.sample(cls=kit.name, program=trace,
                   first_results=[safe_repr(r, 160) for r in results[3:6]])
    for _ in range(4):
        hostile(rng, ctx, kit)
    cross_class(rng, ctx, kit)


def cross_class(rng, ctx, kit):
    """ Mixing diagram classes: refused, or a well-typed value. """
    other = _KITS[rng.randrange(len(_KITS))]
    if other.name == kit.name or "biclosed" in (kit.name, other.name):
        return      # slash types are objects AND types: mixing them is undefined
    a = kit.rand_diagram(rng, rng.randint(0, 2), width=2)
    b = other.rand_diagram(rng, rng.randint(0, 2), width=2)
    pair = kit.name + "+" + other.name
    judge_hostile(ctx, "cross-class-tensor:" + pair, lambda: a @ b)
    judge_hostile(ctx, "cross-class-tensor-chain:" + pair,
                  lambda: (a @ b) @ a >> kit.id(a.cod) @ b[::-1][::-1] @ kit.id(a.cod))
    judge_hostile(ctx, "cross-class-then:" + pair,
                  lambda: a @ b >> (a @ b)[::-1] if kit.name != "cartesian" else a @ b)
    judge_hostile(ctx, "cross-class-type-tensor:" + pair,
                  lambda: kit.id(a.dom @ b.dom) @ other.id(b.cod @ a.cod))
    judge_hostile(ctx, "cross-class-slice:" + pair, lambda: (a @ b)[:1])


def cat_case(rng, ctx):
    kit = kits.CatKit()
    results = []
    a = kit.rand_arrow(rng, rng.randint(0, 4))
    b = kit.rand_arrow(rng, rng.randint(0, 3), dom=a.cod)
    n = len(a)
    i, j = sorted((rng.randint(-n - 1, n + 1), rng.randint(-n - 1, n + 1)))
    for label, fn in [
            ("cat-then", lambda: a >> b), ("cat-dagger", lambda: (a >> b)[::-1]),
            ("cat-slice", lambda: a[i:j]), ("cat-slice2", lambda: (a >> b)[i:]),
            ("cat-sum", lambda: (a >> b) + (a >> b)),
            ("cat-functor", lambda: kit.mod.Functor(
                lambda x: x, lambda f: f)(a >> b))]:
        try:
            check(ctx, label, fn(), results)
        except Exception as err:
            ctx.refuse("{}:{}".format(label, type(err).__name__))
    other = kit.mod.Ob("other")
    for label, fn in [
            ("cat-raw-wrong-cod", lambda: kit.mod.Arrow(a.dom, other, a.boxes)),
            ("cat-raw-wrong-dom", lambda: kit.mod.Arrow(other, a.cod, a.boxes)),
            ("cat-then-mismatch", lambda: a >> kit.rand_arrow(rng, 1, dom=other)),
            ("cat-sum-mismatch", lambda: a + kit.rand_arrow(rng, 1, dom=other))]:
        judge_hostile(ctx, label, fn)
    if len(a) + len(b) >= 2:
        ctx.mark("cat|" + safe_repr(a >> b, 300))


def judge_hostile(ctx, label, fn):
    ctx.current_request = label
    try:
        value = fn()
    except Exception as err:
        ctx.current_request = None
        ctx.ok("hostile-request-refused-or-well-typed")
        ctx.count("hostile_refused")
        return
    ctx.current_request = None
    ctx.count("hostile_returned_a_value")
    if not hasattr(value, "boxes"):
        ctx.ok("hostile-request-refused-or-well-typed")
        return
    try:
        ok, why = well_typed(value)
    except Exception as err:
        ok, why = False, "scan raised {}".format(type(err).__name__)
    ctx.expect("hostile-request-refused-or-well-typed", ok, request=label,
               reason=why, diagram=lambda: safe_repr(value),
               offsets=lambda: getattr(value, "offsets", None),
               dom=lambda: safe_repr(value.dom), cod=lambda: safe_repr(value.cod),
               boxes=lambda: [(safe_repr(b.dom, 80), safe_repr(b.cod, 80))
                              for b in value.boxes][:8])


def hostile(rng, ctx, kit):
    d = kit.rand_diagram(rng, rng.randint(1, 4), raw=False)
    if kit.name == "cartesian":
        return hostile_cartesian(rng, ctx, kit, d)
    dom, cod, boxes, offsets = d.dom, d.cod, d.boxes, d.offsets
    k = rng.randrange(len(boxes)) if boxes else 0
    extra = kit.rand_ty(rng, 1)
    choice = rng.randrange(13)
    D = kit.Diagram
    if choice == 0 and boxes:
        bad = list(offsets)
        bad[k] += rng.choice([-1, 1])
        judge_hostile(ctx, "ctor-offset+-1", lambda: D(dom, cod, boxes, bad))
    elif choice == 1 and boxes:
        bad = list(offsets)
        bad[k] = rng.choice([-1, -2, len(dom) + len(cod) + 5, 10 ** 6])
        judge_hostile(ctx, "ctor-offset-far", lambda: D(dom, cod, boxes, bad))
    elif choice == 2:
        judge_hostile(ctx, "ctor-wrong-cod", lambda: D(dom, cod @ extra, boxes, offsets))
    elif choice == 3:
        judge_hostile(ctx, "ctor-wrong-dom", lambda: D(extra @ dom, cod, boxes, offsets))
    elif choice == 4:
        other = kit.rand_diagram(rng, 1, dom=cod @ extra)
        judge_hostile(ctx, "then-mismatch", lambda: d >> other)
    elif choice == 5 and boxes:
        judge_hostile(ctx, "ctor-short-offsets", lambda: D(dom, cod, boxes, offsets[:-1]))
    elif choice == 6 and boxes:
        judge_hostile(ctx, "slice-step-2", lambda: d[::2])
        judge_hostile(ctx, "index-out-of-range", lambda: d[len(d) + 1])
        judge_hostile(ctx, "interchange-out-of-range",
                      lambda: d.interchange(0, len(d)))
    elif choice == 7:
        n = len(cod)
        bad = [rng.randrange(n + 1) for _ in range(n)]
        judge_hostile(ctx, "permute-non-permutation", lambda: d.permute(*bad))
        judge_hostile(ctx, "permutation-wrong-length",
                      lambda: D.permutation(list(range(n + 1)), cod))
    elif choice == 8 and hasattr(kit.mod, "Swap") and kit.name != "zx":
        left, right = kit.rand_ty(rng, 2), kit.rand_ty(rng, 1)
        judge_hostile(ctx, "swap-box-composite", lambda: kit.mod.Swap(left, right))
    elif choice == 9 and kit.name == "rigid":
        a, b = kit.rand_ty(rng, 1), kit.rand_ty(rng, 1)
        judge_hostile(ctx, "cup-random-pair", lambda: kit.mod.Cup(a, b))
        judge_hostile(ctx, "cap-random-pair", lambda: kit.mod.Cap(a, b))
        judge_hostile(ctx, "cups-random", lambda: D.cups(a @ b, b @ a))
    elif choice == 10 and kit.name in ("monoidal", "rigid") and boxes:
        wrong = kit.box_with_dom(rng, boxes[k].dom @ extra)
        functor = kit.mod.Functor(
            lambda x: x, lambda f: wrong if f == boxes[k] else f)
        judge_hostile(ctx, "functor-image-wrong-dom", lambda: functor(d))
    elif choice == 12 and boxes:
        hostile_types(rng, ctx, kit, d)
    elif choice == 11 and boxes:
        empty_dom_box = kit_state(rng, kit)
        if empty_dom_box is not None:
            off = rng.choice([-1, len(dom) + 1, len(dom) + 3, -len(dom) - 2])
            new_cod = dom @ empty_dom_box.cod
            judge_hostile(ctx, "ctor-state-offset-out-of-range",
                          lambda: D(dom, new_cod, [empty_dom_box], [off]))


def hostile_types(rng, ctx, kit, d):
    D, dom, cod, boxes, offsets = kit.Diagram, d.dom, d.cod, d.boxes, d.offsets
    judge_hostile(ctx, "ctor-dom-not-a-type", lambda: D("x", cod, boxes, offsets))
    judge_hostile(ctx, "ctor-cod-not-a-type", lambda: D(dom, None, boxes, offsets))
    judge_hostile(ctx, "ctor-box-not-a-diagram",
                  lambda: D(dom, cod, ["f"] + boxes[1:], offsets))
    judge_hostile(ctx, "ctor-offset-not-an-int",
                  lambda: D(dom, cod, boxes, [0.0] + offsets[1:]))
    judge_hostile(ctx, "then-not-a-diagram", lambda: d >> "f")
    judge_hostile(ctx, "tensor-not-a-diagram", lambda: d @ 3)
    judge_hostile(ctx, "tensor-nothing", lambda: d.tensor())
    judge_hostile(ctx, "then-nothing", lambda: d.then())
    from discopy import cat
    x = cat.Ob("x")
    judge_hostile(ctx, "arrow-dom-not-ob", lambda: cat.Arrow("x", x, []))
    judge_hostile(ctx, "arrow-cod-not-ob", lambda: cat.Arrow(x, "x", []))
    judge_hostile(ctx, "arrow-box-not-arrow", lambda: cat.Arrow(x, x, ["f"]))
    judge_hostile(ctx, "arrow-then-not-arrow", lambda: cat.Id(x) >> "f")


def kit_state(rng, kit):
    try:
        return kit.box_with_dom(rng, kit.unit())
    except Exception:
        return None


def hostile_cartesian(rng, ctx, kit, d):
    n, m = len(d.dom), len(d.cod)
    bad = list(d.offsets)
    if bad:
        bad[rng.randrange(len(bad))] += rng.choice([-1, 1, 7])
    judge_hostile(ctx, "cartesian-ctor-offset",
                  lambda: kit.Diagram(n, m, d.boxes, bad))
    judge_hostile(ctx, "cartesian-ctor-cod",
                  lambda: kit.Diagram(n, m + 1, d.boxes, d.offsets))
