"""
C10 - swaps and permutations realise exactly the requested wire permutation.

Monitors
  only-adjacent-swaps     every box is a 2-wire Swap of the class's swap family
                          whose declared left/right are the types actually crossing
  wire-i-goes-to-perm-i   following each input wire through the swaps
  block-swap              swap(l, r): k-th wire of l ends at len(r) + k, in order
  cod-is-permuted-dom     type bookkeeping, and the result is well-typed
  permute-appends         d.permute(*p) == d >> permutation(p, d.dom)
  argument-not-consumed   the list handed in is left as it was: a second call with the
                          same list object returns the same diagram
  refused                 non-permutations / length mismatches / composite Swap
"""
import itertools

from verif.gen import kits
from verif.instrument import safe_repr
from verif.models.typing import tykey, well_typed

ID = "C10"
TECHNIQUE = ("runtime monitoring: wire-following reference model over the "
             "returned swap diagrams; exhaustive sweep of small permutations")
RULE = ("global case id g = index * shards + shard.  Ids below the size of the "
        "exhaustive block enumerate ALL permutations of n <= 5 (quick) / n <= 7 "
        "(thorough) wires and all swap shapes (len l, len r) <= 4x4 / 6x6, each "
        "in monoidal, rigid, tensor, circuit and zx with pairwise distinct wire "
        "types where the class has them; the remaining ids are random "
        "permutations up to n = 10, random swaps and malformed requests.  "
        "Non-trivial = a non-involutive permutation of >= 3 wires or a swap of "
        "two composite types; distinct by (class, request).")
SIZES = {"quick": (16, 22), "thorough": (16, 560)}
TIMEOUT = {"quick": 600, "thorough": 5400}
COVER = {"discopy.monoidal:Diagram.swap": 0.95,
         "discopy.monoidal:Diagram.permutation": 0.95,
         "discopy.monoidal:Diagram.permute": 0.9,
         "discopy.rigid:Diagram.swap": 0.9, "discopy.rigid:Diagram.permutation": 0.9,
         "discopy.quantum.circuit:Circuit.swap": 0.9,
         "discopy.quantum.circuit:Circuit.permutation": 0.9,
         "discopy.quantum.zx:Diagram.swap": 0.9,
         "discopy.quantum.zx:Diagram.permutation": 0.9}
MIN_EVALS = {"quick": {"wire-i-goes-to-perm-i": 1500, "block-swap": 250,
                       "refused": 500, "exhaustive_permutations": 154,
                       "exhaustive_swap_shapes": 25},
             "thorough": {"exhaustive_permutations": 5914,
                          "exhaustive_swap_shapes": 49}}
ASSUMPTIONS = [
    "the class of the returned diagram is not constrained (tensor.Diagram."
    "permutation is inherited from rigid and returns a rigid.Diagram)",
    "any exception counts as a refusal of a malformed request"]

NMAX = {"quick": 5, "thorough": 7}
SWAPMAX = {"quick": 4, "thorough": 6}
_ENV = {}


def setup(ctx):
    from discopy import monoidal, rigid, tensor
    from discopy.quantum import circuit, zx
    n = NMAX[ctx.tier]
    perms = [list(p) for k in range(n + 1)
             for p in itertools.permutations(range(k))]
    shapes = [(i, j) for i in range(SWAPMAX[ctx.tier] + 1)
              for j in range(SWAPMAX[ctx.tier] + 1)]
    _ENV.update(perms=perms, shapes=shapes)

    def mono_ty(names):
        return monoidal.Ty(*names)

    def rigid_ty(names):
        return rigid.Ty(*[rigid.Ob(str(x), z=(k % 5) - 2) for k, x in enumerate(names)])

    def dim_ty(names):
        return tensor.Dim(*[2 + k for k, _ in enumerate(names)])

    def circ_ty(names):
        out = circuit.Ty()
        for k, _ in enumerate(names):
            out = out @ (circuit.bit if (k * 7 + len(names)) % 3 == 0 else circuit.qubit)
        return out

    def pro_ty(names):
        return rigid.PRO(len(names))
    _ENV["classes"] = [
        ("monoidal", monoidal.Diagram, monoidal.Swap, mono_ty, monoidal.Id),
        ("rigid", rigid.Diagram, rigid.Swap, rigid_ty, rigid.Id),
        ("tensor", tensor.Diagram, rigid.Swap, dim_ty, tensor.Id),
        ("circuit", circuit.Circuit, circuit.Swap, circ_ty, circuit.Id),
        ("zx", zx.Diagram, zx.Swap, pro_ty, None)]


def follow(ctx, d, swap_cls, witness):
    """ Returns where each input wire ends, or None if a box is not a swap. """
    wires = list(range(len(d.dom)))
    scan = list(tykey(d.dom))
    for k, (box, off) in enumerate(zip(d.boxes, d.offsets)):
        good = isinstance(box, swap_cls) and len(box.dom) == 2 and len(box.cod) == 2\
            and hasattr(box, "left") and hasattr(box, "right")
        if good:
            good = (tykey(box.left), tykey(box.right)) == (
                (scan[off],), (scan[off + 1],))\
                and tykey(box.dom) == (scan[off], scan[off + 1])\
                and tykey(box.cod) == (scan[off + 1], scan[off])
        if not good:
            ctx.fail("only-adjacent-swaps", position=k, box=safe_repr(box),
                     box_class=type(box).__module__ + "." + type(box).__name__,
                     offset=off, **witness)
            return None
        wires[off], wires[off + 1] = wires[off + 1], wires[off]
        scan[off], scan[off + 1] = scan[off + 1], scan[off]
    ctx.ok("only-adjacent-swaps")
    ends = [None] * len(wires)
    for position, wire in enumerate(wires):
        ends[wire] = position
    return ends


def check_permutation(ctx, cls, perm, result, dom, swap_cls, request):
    witness = dict(cls=cls, perm=perm, request=request, dom=lambda: safe_repr(dom),
                   result=lambda: safe_repr(result), offsets=lambda: result.offsets)
    ok, why = well_typed(result)
    ctx.expect("cod-is-permuted-dom", ok, kind="ill-typed result", reason=why, **witness)
    if not ok:
        return
    dk = tykey(dom)
    expected_cod = [None] * len(perm)
    for i, target in enumerate(perm):
        expected_cod[target] = dk[i]
    ctx.expect("cod-is-permuted-dom", tykey(result.dom) == dk
               and list(tykey(result.cod)) == expected_cod, **witness)
    ends = follow(ctx, result, swap_cls, witness)
    if ends is not None:
        ctx.expect("wire-i-goes-to-perm-i", ends == list(perm), ends=ends, **witness)


def check_swap(ctx, cls, left, right, result, swap_cls):
    witness = dict(cls=cls, left=lambda: safe_repr(left), right=lambda: safe_repr(right),
                   result=lambda: safe_repr(result), offsets=lambda: result.offsets)
    ok, why = well_typed(result)
    ctx.expect("cod-is-permuted-dom", ok, kind="ill-typed result", reason=why, **witness)
    if not ok:
        return
    lk, rk = tykey(left), tykey(right)
    ctx.expect("cod-is-permuted-dom",
               tykey(result.dom) == lk + rk and tykey(result.cod) == rk + lk, **witness)
    ends = follow(ctx, result, swap_cls, witness)
    if ends is not None:
        expected = [len(rk) + k for k in range(len(lk))] + list(range(len(rk)))
        ctx.expect("block-swap", ends == expected, ends=ends, expected=expected, **witness)


def names_for(n, salt=0):
    return ["w{}".format((k + salt)) for k in range(n)]


def do_permutation(ctx, perm, rng=None):
    for cls, D, swap_cls, make_ty, Id in _ENV["classes"]:
        dom = make_ty(names_for(len(perm)))
        request = "permutation(perm, dom)"
        mine = list(perm)
        result = D.permutation(mine, dom)
        again = D.permutation(mine, dom)      # the very same list object
        ctx.expect("argument-not-consumed", mine == list(perm) and again == result,
                   cls=cls, perm=list(perm), list_after_the_call=mine,
                   second_result=lambda: safe_repr(again))
        check_permutation(ctx, cls, list(perm), result, dom, swap_cls, request)
        if Id is not None:
            identity = Id(dom)
            permuted = identity.permute(*perm)
            check_permutation(ctx, cls, list(perm), permuted, dom, swap_cls,
                              "Id(dom).permute(*perm)")
            ctx.expect("permute-appends", permuted == identity >> result
                       and permuted == result, cls=cls, perm=list(perm))
        if len(perm) <= 6:
            default = D.permutation(list(perm))      # default domain PRO(n)
            check_permutation(ctx, cls + "-default-dom", list(perm), default,
                              default.dom, swap_cls, "permutation(perm)")
            ctx.expect("cod-is-permuted-dom", len(default.dom) == len(perm)
                       and len(set(tykey(default.dom))) <= 1
                       and (cls == "circuit" or all(
                           ob == (1,) for ob in tykey(default.dom))),
                       kind="default domain is not n copies of one wire (PRO(n))",
                       cls=cls, perm=list(perm))


def do_swap(ctx, nl, nr):
    for cls, D, swap_cls, make_ty, Id in _ENV["classes"]:
        both = make_ty(names_for(nl + nr))
        left, right = both[:nl], both[nl:]
        if cls == "zx" and (nl + nr) % 2:
            result = D.swap(nl, nr)        # ints are accepted too
        else:
            result = D.swap(left, right)
        check_swap(ctx, cls, left, right, result, swap_cls)


def refusals(rng, ctx):
    for cls, D, swap_cls, make_ty, Id in _ENV["classes"]:
        n = rng.randint(1, 5)
        dom = make_ty(names_for(n))
        perm = list(range(n))
        rng.shuffle(perm)
        bad = []
        repeated = list(perm)
        repeated[rng.randrange(n)] = repeated[rng.randrange(n) - 1] if n > 1 else 5
        if sorted(repeated) != list(range(n)):
            bad.append(("repeated-entry", repeated, dom))
        bad.append(("out-of-range-entry", perm[:-1] + [n], dom))
        bad.append(("negative-entry", perm[:-1] + [-1], dom) if n > 1 or True else None)
        bad.append(("missing-entry", [p for p in perm if p != n - 1] + [n], dom))
        bad.append(("dom-too-long", perm, make_ty(names_for(n + 1))))
        bad.append(("dom-too-short", perm + [n], dom))
        for kind, request, domain in bad:
            if sorted(request) == list(range(len(request))) and len(request) == len(domain):
                continue
            try:
                value = D.permutation(list(request), domain)
                ctx.fail("refused", kind=kind + " returned a value", cls=cls,
                         perm=request, dom=safe_repr(domain), value=safe_repr(value))
            except Exception as err:
                ctx.ok("refused")
                ctx.count("refusal:" + type(err).__name__)
        # arbitrary lists against arbitrary domain lengths
        for _ in range(6):
            length = rng.randint(1, 6)
            request = [rng.randint(-1, length) for _ in range(length)]
            for dom_len in sorted({length, len(set(request)), max(request) + 1,
                                   rng.randint(0, 7)}):
                if dom_len < 0:
                    continue
                if sorted(request) == list(range(length)) and dom_len == length:
                    continue
                domain = make_ty(names_for(dom_len))
                try:
                    value = D.permutation(list(request), domain)
                    ctx.fail("refused", kind="random non-permutation or length "
                             "mismatch returned a value", cls=cls, perm=request,
                             dom=safe_repr(domain), value=safe_repr(value))
                except Exception as err:
                    ctx.ok("refused")
                    ctx.count("refusal:" + type(err).__name__)
        both = make_ty(names_for(3))
        if cls != "zx":
            for left, right in ((both[:2], both[2:]), (both[:1], both[1:]), (both[:0], both[:1])):
                try:
                    value = swap_cls(left, right)
                    ctx.fail("refused", kind="Swap box of composite/empty types",
                             cls=cls, left=safe_repr(left), right=safe_repr(right),
                             value=safe_repr(value))
                except Exception as err:
                    ctx.ok("refused")
                    ctx.count("refusal:" + type(err).__name__)


def run_case(rng, ctx):
    perms, shapes = _ENV["perms"], _ENV["shapes"]
    g = ctx.index * ctx.nshards + ctx.shard
    if g < len(perms):
        perm = perms[g]
        do_permutation(ctx, perm)
        ctx.count("exhaustive_permutations")
        involutive = all(perm[perm[i]] == i for i in range(len(perm)))
        if len(perm) >= 3 and not involutive:
            ctx.mark("perm" + repr(perm))
        if g % 37 == 0:
            ctx.sample(kind="exhaustive permutation", perm=perm, classes=5)
        return
    g -= len(perms)
    if g < len(shapes):
        nl, nr = shapes[g]
        do_swap(ctx, nl, nr)
        ctx.count("exhaustive_swap_shapes")
        if nl >= 2 and nr >= 2:
            ctx.mark("swap" + repr((nl, nr)))
        if g % 9 == 0:
            ctx.sample(kind="exhaustive swap shape", left_wires=nl, right_wires=nr)
        return
    n = rng.randint(3, 10)
    perm = list(range(n))
    rng.shuffle(perm)
    do_permutation(ctx, perm)
    do_swap(ctx, rng.randint(0, 7), rng.randint(0, 7))
    refusals(rng, ctx)
    ctx.count("random_requests")
    if not all(perm[perm[i]] == i for i in range(n)):
        ctx.mark("perm" + repr(perm))
