"""
C03 - equality is structural, hash-consistent and printable (cat, monoidal, rigid).

Monitors (over ALL pairs of a pool in which the same value is reached by
different routes and near-twins differ in one attribute)
  eq-iff-same-structure   (a == b) == (key(a) == key(b)), key computed by the harness
  eq-symmetric            (a == b) == (b == a)
  eq-reflexive
  hash-consistent         a == b  =>  hash(a) == hash(b)
  dict-lookup             {a: 1}[b] for equal a, b
  functor-lookup          a functor whose mapping was keyed by one construction of a
                          box finds the image for an equal box built another way
  repr-roundtrip          eval(repr(v)) == v, same key, same hash
  eq-transitive           sampled triples
"""
import itertools
import re

from verif.gen import kits
from verif.instrument import safe_repr
from verif.models import struct

ID = "C03"
TECHNIQUE = ("runtime monitoring: library ==/hash/repr observed on all pairs of "
             "pools of API values and compared with harness-side structural keys")
RULE = ("case = pool of 20-40 values (types, boxes, diagrams, sums, bubbles) of "
        "one free category (cat, monoidal, rigid) in which equal values are "
        "built by different routes (operators, raw constructor, slices, dagger "
        "twice, interchange there and back, identity functor, eval(repr)) and "
        "near-twins differ in one attribute (offset, winding number, name 1 vs "
        "'1', data [1] vs (1,), dagger flag); all ordered pairs are compared.  "
        "Non-trivial = pool has >= 3 structural classes with >= 2 members; "
        "distinct by the sorted keys of the pool."
        "  Also: sums accumulated with += (hash/repr taken before), bubbles with both types overridden.")
SIZES = {"quick": (16, 60), "thorough": (16, 1500)}
TIMEOUT = {"quick": 600, "thorough": 5400}
COVER = {
    "discopy.cat:Ob.__eq__": 0.9, "discopy.cat:Arrow.__eq__": 0.9,
    "discopy.cat:Box.__eq__": 0.8, "discopy.cat:Box.__repr__": 0.9,
    "discopy.cat:Sum.__eq__": 0.9, "discopy.monoidal:Ty.__eq__": 0.9,
    "discopy.monoidal:Diagram.__eq__": 0.9, "discopy.monoidal:Diagram.__repr__": 0.9,
    "discopy.monoidal:Box.__eq__": 0.8, "discopy.rigid:Ob.__eq__": 0.4,
    "discopy.rigid:Ob.__hash__": 0.9, "discopy.rigid:Ty.__repr__": 0.9,
    "discopy.cat:Functor.__call__": 0.5,
}
MIN_EVALS = {"quick": {"eq-iff-same-structure": 200000, "hash-consistent": 10000,
                       "repr-roundtrip": 10000, "functor-lookup": 500},
             "thorough": {"eq-iff-same-structure": 5000000}}
ASSUMPTIONS = [
    "pairs are compared within one sort (types with types of the same class; "
    "boxes/diagrams of one module with each other; sums with sums)",
    "data payloads contain no str (Box(..., data='ab') does not terminate at "
    "construction) and no NaN; Python's own == decides payload equality "
    "(1 == 1.0 == True)",
    "repr is evaluated in the namespace `from discopy.<module> import *` "
    "(rigid: monoidal's names overridden by rigid's)"]

_ENV = {}
def atoms(v, out=None):
    """ Names and payloads of a value, in a fixed traversal order. """
    out = [] if out is None else out
    if hasattr(v, "terms") and type(v).__name__ == "Sum":
        for term in v.terms:
            atoms(term, out)
        atoms(v.dom, out)
        atoms(v.cod, out)
    elif hasattr(v, "boxes"):
        atoms(v.dom, out)          # a bare box is read as its one-box diagram
        atoms(v.cod, out)
        for box in v.boxes:
            if len(box.boxes) == 1 and box.boxes[0] is box:
                atoms(box.dom, out)
                atoms(box.cod, out)
                out.append(box.name)
                out.append(getattr(box, "data", None))
                inside = getattr(box, "inside", None)
                if inside is not None:
                    atoms(inside, out)
            else:
                atoms(box, out)
    elif hasattr(v, "objects"):
        for ob in v.objects:
            out.append(ob.name)
    elif hasattr(v, "name"):
        out.append(v.name)
    return out


def equal_atoms_printed_differently(a, b):
    """
    a and b are built from pairwise Python-equal names/payloads, at least one of
    which prints differently (1 vs 1.0, {'a': 1, 'b': 2} vs {'b': 2, 'a': 1}).
    """
    xs, ys = atoms(a), atoms(b)
    try:
        same = len(xs) == len(ys) and all(x == y for x, y in zip(xs, ys))
    except Exception:
        return False
    return bool(same) and [repr(x) for x in xs] != [repr(y) for y in ys]


def hash_of_repr(monitor, witness):
    """
    a == b because Python says their names/payloads are equal (1 == 1.0, dicts
    equal whatever the insertion order) while hashes are hashes of repr strings,
    which print those equal payloads differently.
    """
    return monitor in ("hash-consistent", "dict-lookup")\
        and witness.get("equal_atoms_printed_differently") is True


PREDICATES = {"hash_of_repr": hash_of_repr}


def setup(ctx):
    from discopy import cat, monoidal, rigid
    _ENV["cat"] = (cat, dict(vars(cat)))
    _ENV["monoidal"] = (monoidal, dict(vars(monoidal)))
    ns = dict(vars(monoidal))
    ns.update(vars(rigid))
    _ENV["rigid"] = (rigid, ns)
    _ENV["kits"] = {"monoidal": kits.MonoidalKit(), "rigid": kits.RigidKit(),
                    "cat": kits.CatKit()}


def sort_of(v):
    if hasattr(v, "terms") and type(v).__name__ == "Sum":
        return "sum"
    if hasattr(v, "boxes"):
        return "arrow"
    if hasattr(v, "objects"):
        return "type:" + type(v).__name__
    return "ob:" + type(v).__name__


def payloads(rng):
    pool = [None, 1, 1.0, 2, [1], (1,), [1, 2], {"a": 1, "b": [2]}, {"b": [2], "a": 1},
            {1, 2}, 0.5, (0, (1, 2)), [[]], {}, -1, 2 + 1j]
    return pool[rng.randrange(len(pool))]


def variants_of_box(rng, mod, ns, box, pool):
    """ The same box by other routes, and near-twins. """
    pool.append(box)
    pool.append(box.dagger().dagger())
    pool.append(box[::-1][::-1])
    pool.append(box.dagger())
    try:
        pool.append(eval(repr(box), dict(ns)))
    except Exception:
        pass
    if type(box).__name__ == "Box":
        data = box.data
        twins = [
            dict(name=box.name, data=payloads(rng)),
            dict(name=1 if box.name == "1" else "1", data=data),
            dict(name=box.name + "'" if isinstance(box.name, str) else "q", data=data)]
        for t in twins:
            kwargs = {} if t["data"] is None else {"data": t["data"]}
            made = mod.Box(t["name"], box.dom, box.cod, **kwargs)
            pool.append(made.dagger() if box.is_dagger else made)
        kwargs = {} if data is None else {"data": data}
        pool.append(mod.Box(box.name, box.dom, box.cod, _dagger=bool(box.is_dagger),
                            **kwargs))


def pool_monoidal(rng, name):
    mod, ns = _ENV[name]
    kit = _ENV["kits"][name]
    pool = []
    # -- types ------------------------------------------------------------------
    names = [rng.choice(["x", "y", 1, "1", 1.0, 2]) for _ in range(3)]
    t = mod.Ty(*names)
    pool += [t, mod.Ty(names[0]) @ mod.Ty(*names[1:]), t[:], mod.Ty(*names[:2]),
             (t @ mod.Ty("z"))[:3], mod.Ty(), t[0:0], mod.Ty(*reversed(names)),
             mod.Ty(*t.objects), mod.Ty(*names) @ mod.Ty()]
    pool += [mod.PRO(2), mod.PRO(1) @ mod.PRO(1), mod.PRO(3)[:2], mod.PRO(0)]
    if name == "rigid":
        x = mod.Ty(rng.choice(["x", "y"]))
        pool += [x, x.l.r, x.r.l, x.r, x.l, x.r.r, mod.Ty(mod.Ob(x[0].name, z=1)),
                 (x @ x.r).l, x.r.l.l @ x.l, mod.Ty(mod.Ob(x[0].name, 0)),
                 (x.l @ x).r, (x @ x.r)[1:]]
        pool += [x[0], x.r[0], x.l.r[0], mod.Ob(x[0].name, z=1), mod.Ob(x[0].name)]
        # the same simple type reached from plain objects / plain types
        from discopy import cat as _cat, monoidal as _monoidal
        plain = _monoidal.Ty(x[0].name)
        pool += [mod.Ty(_cat.Ob(x[0].name)), mod.Ty(*plain), mod.Ty.upgrade(plain),
                 mod.Ty(_cat.Ob(x[0].name)) @ x.r]
    # -- diagrams ---------------------------------------------------------------
    d = kit.rand_diagram(rng, rng.randint(1, 4), width=rng.randint(0, 3), raw=False)
    e = kit.rand_diagram(rng, rng.randint(0, 2), dom=d.cod, raw=False)
    pool += [d, mod.Diagram(d.dom, d.cod, d.boxes, d.offsets), (d >> e)[:len(d)],
             mod.Id(d.dom) >> d, d >> mod.Id(d.cod), mod.Id(mod.Ty()) @ d,
             d[::-1][::-1], mod.Functor(lambda x: x, lambda f: f)(d),
             d >> e, (d >> e)[len(d):], e, d[::-1], mod.Id(d.dom), mod.Id(d.cod),
             mod.Diagram(d.dom, d.dom, [], []), d[:0], d[len(d):]]
    try:
        pool.append(eval(repr(d), dict(ns)))
        pool.append(eval(repr(d >> e), dict(ns)))
    except Exception:
        pass
    if len(d) >= 2:
        i = rng.randrange(len(d) - 1)
        try:
            moved = d.interchange(i, i + 1)
            pool += [moved, moved.interchange(i + 1, i),
                     moved.interchange(i, i + 1, left=True)]
        except Exception:
            pass
    # near twins: one box renamed; scalar at another offset
    k = rng.randrange(len(d))
    twin_boxes = d.boxes
    other = kit.box_with_dom(rng, twin_boxes[k].dom, cod=twin_boxes[k].cod)
    twin_boxes[k] = other
    pool.append(mod.Diagram(d.dom, d.cod, twin_boxes, d.offsets))
    s = mod.Box("s", mod.Ty(), mod.Ty())
    pool += [s @ mod.Id(d.dom), mod.Id(d.dom) @ s, s @ d, d @ s, s >> s, s @ s]
    # -- boxes ------------------------------------------------------------------
    for box in d.boxes[:2]:
        variants_of_box(rng, mod, ns, box, pool)
        pool.append(mod.Diagram(box.dom, box.cod, [box], [0]))
        pool.append(mod.Id(box.dom) >> box)
    if name == "rigid":
        x = mod.Ty("x")
        pool += [mod.Cup(x, x.r), mod.Cup(x.l, x), mod.Cap(x, x.l), mod.Cap(x.r, x),
                 mod.Cup(x, x.r).dagger(), mod.Cap(x, x.r), mod.Cap(x, x.r).dagger(),
                 mod.Diagram.cups(x, x.r), mod.Diagram.caps(x, x.l),
                 mod.Swap(x, x.r), mod.Swap(x.r, x), mod.Swap(x, x.r).dagger(),
                 mod.Diagram.swap(x, x.r)]
    else:
        x, y = mod.Ty("x"), mod.Ty("y")
        pool += [mod.Swap(x, y), mod.Swap(y, x), mod.Swap(x, y).dagger(),
                 mod.Diagram.swap(x, y), mod.Swap(y, x)[::-1]]
    # -- sums and bubbles -----------------------------------------------------------
    alt = kit.rand_diagram(rng, rng.randint(0, 2), dom=d.dom, raw=False)
    alt = alt >> kit.box_with_dom(rng, alt.cod, cod=d.cod)
    Sum = type(d + alt)
    pool += [d + alt, Sum([d, alt]), sum([d, alt]), alt + d, Sum([d]), d + d,
             Sum([], d.dom, d.cod), Sum([], d.cod, d.dom), (d + alt)[::-1][::-1],
             Sum([d, alt], d.dom, d.cod), Sum([d]) + Sum([alt]),
             Sum([], d.dom, d.cod) + d]
    # histories: sums accumulated with += (the value must be the sum of what
    # was added, and the sum it started from must still be what it was)
    acc, zero = Sum([d]), Sum([], d.dom, d.cod)
    hash(acc), hash(zero), repr(acc)
    started_from = zero
    acc += alt
    zero += d
    pool += [acc, zero, started_from]
    Bubble = type(d.bubble())
    pool += [d.bubble(), Bubble(d), alt.bubble(), d.bubble().bubble(),
             d.bubble(dom=d.dom @ d.dom), Bubble(d, dom=d.dom @ d.dom),
             mod.Id(mod.Ty()) @ d.bubble(),
             # both boundary types overridden and different from the inside's
             Bubble(d, dom=d.dom @ d.dom, cod=d.cod @ d.cod),
             d.bubble(dom=d.dom @ d.cod, cod=d.cod @ d.dom),
             Bubble(d, cod=d.cod @ d.cod), Bubble(d, dom=d.cod, cod=d.dom)]
    return pool, mod, ns


def pool_cat(rng):
    mod, ns = _ENV["cat"]
    kit = _ENV["kits"]["cat"]
    pool = []
    a = kit.rand_arrow(rng, rng.randint(1, 4), raw=False)
    b = kit.rand_arrow(rng, rng.randint(0, 2), dom=a.cod, raw=False)
    pool += [a, mod.Arrow(a.dom, a.cod, a.boxes), (a >> b)[:len(a)], mod.Id(a.dom) >> a,
             a >> mod.Id(a.cod), a[::-1][::-1], a >> b, b, a[::-1], mod.Id(a.dom),
             mod.Arrow(a.dom, a.dom, []), a[:0], a[len(a):],
             mod.Functor(lambda x: x, lambda f: f)(a)]
    for name in ["x", "y", 1, "1", 1.0, (1, 2), ("x",)]:
        pool += [mod.Ob(name)]
    pool += [mod.Ob("x"), mod.Ob((1, 2))]
    for box in a.boxes[:2]:
        variants_of_box(rng, mod, ns, box, pool)
        pool.append(mod.Arrow(box.dom, box.cod, [box]))
    alt = kit.rand_arrow(rng, rng.randint(0, 2), dom=a.dom, raw=False)
    alt = alt >> kit.box(rng, alt.cod, a.cod)
    pool += [a + alt, mod.Sum([a, alt]), sum([a, alt]), alt + a, mod.Sum([a]),
             mod.Sum([], a.dom, a.cod), mod.Sum([], a.cod, a.dom),
             (a + alt)[::-1][::-1], mod.Sum([], a.dom, a.cod) + a]
    pool += [a.bubble(), mod.Bubble(a), alt.bubble(), a.bubble().bubble()]
    try:
        pool.append(eval(repr(a), dict(ns)))
    except Exception:
        pass
    return pool, mod, ns


def run_case(rng, ctx):
    name = ["monoidal", "rigid", "cat", "rigid", "monoidal"][ctx.index % 5]
    pool, mod, ns = pool_cat(rng) if name == "cat" else pool_monoidal(rng, name)
    keys = [struct.key(v) for v in pool]
    sorts = [sort_of(v) for v in pool]
    hashes = []
    for v in pool:
        try:
            hashes.append(hash(v))
        except TypeError:
            hashes.append(None)         # unhashable payloads (lists): allowed
    eqs = {}
    for (i, a), (j, b) in itertools.product(enumerate(pool), repeat=2):
        if sorts[i] != sorts[j]:
            continue
        try:
            eqs[i, j] = bool(a == b)
        except Exception as err:
            ctx.fail("eq-iff-same-structure", kind="== raised " + type(err).__name__,
                     a=safe_repr(a), b=safe_repr(b), cls=name)
            continue
        same = keys[i] == keys[j]
        ctx.expect("eq-iff-same-structure", eqs[i, j] == same, cls=name,
                   library_says_equal=eqs[i, j], a=lambda: safe_repr(a),
                   b=lambda: safe_repr(b), type_a=type(a).__name__,
                   type_b=type(b).__name__, key_a=lambda: repr(keys[i])[:800],
                   key_b=lambda: repr(keys[j])[:800],
                   bubble_involved=lambda: "Bubble" in repr(keys[i]) + repr(keys[j]))
        if i == j:
            ctx.expect("eq-reflexive", eqs[i, j], a=lambda: safe_repr(a), cls=name)
        if eqs[i, j] and hashes[i] is not None and hashes[j] is not None:
            ctx.expect("hash-consistent", hashes[i] == hashes[j], cls=name,
                       a=lambda: safe_repr(a), b=lambda: safe_repr(b),
                       type_a=type(a).__name__, type_b=type(b).__name__,
                       equal_atoms_printed_differently=lambda:
                       equal_atoms_printed_differently(a, b),
                       bubble_involved=lambda: "Bubble" in repr(keys[i]) + repr(keys[j]))
            try:
                found = {a: 1}[b] == 1
            except KeyError:
                found = False
            ctx.expect("dict-lookup", found, cls=name, a=lambda: safe_repr(a),
                       b=lambda: safe_repr(b),
                       equal_atoms_printed_differently=lambda:
                       equal_atoms_printed_differently(a, b),
                       bubble_involved=lambda: "Bubble" in repr(keys[i]) + repr(keys[j]))
    for v in pool:
        for foreign in ("x", None, 1, ("x",)):
            try:
                answer = (v == foreign) or (foreign == v)
            except Exception as err:
                answer = "raised " + type(err).__name__
            ctx.expect("eq-with-foreign-value-is-false", answer is False, cls=name,
                       value=lambda: safe_repr(v), foreign=repr(foreign),
                       answer=repr(answer))
    for (i, j), value in eqs.items():
        if (j, i) in eqs:
            ctx.expect("eq-symmetric", value == eqs[j, i], cls=name,
                       a=lambda: safe_repr(pool[i]), b=lambda: safe_repr(pool[j]))
    n = len(pool)
    groups = {}
    for i, key in enumerate(keys):
        groups.setdefault((sorts[i], repr(key)), []).append(i)
    for members in groups.values():
        if len(members) >= 3:
            for _ in range(4):
                i, j, k = (members[rng.randrange(len(members))] for _ in range(3))
                if eqs.get((i, j)) and eqs.get((j, k)) and (i, k) in eqs:
                    ctx.expect("eq-transitive", eqs[i, k], cls=name,
                               a=lambda: safe_repr(pool[i]), b=lambda: safe_repr(pool[j]),
                               c=lambda: safe_repr(pool[k]))
    # -- repr round trip ----------------------------------------------------------
    for i, v in enumerate(pool):
        text = None
        try:
            text = repr(v)
            back = eval(text, dict(ns))
        except Exception as err:
            ctx.fail("repr-roundtrip", kind="eval(repr) raised " + type(err).__name__,
                     message=str(err)[:200], text=text and text[:1500], cls=name,
                     type=type(v).__name__,
                     bubble_involved="Bubble" in (text or ""))
            continue
        try:
            same = bool(back == v) and bool(v == back) and struct.key(back) == keys[i]
            if hashes[i] is not None:
                same = same and hash(back) == hashes[i]
        except Exception as err:
            same = False
        ctx.expect("repr-roundtrip", same, kind="evaluates to another value",
                   text=lambda: text[:1500], back=lambda: safe_repr(back), cls=name,
                   type=type(v).__name__, bubble_involved="Bubble" in text)
    # -- functor lookup ---------------------------------------------------------------
    if name != "cat":
        functor_lookup(rng, ctx, name, mod, ns, pool)
        downgrade_after_hashing(ctx, name, mod, pool)
    classes = {}
    for i, key in enumerate(keys):
        classes.setdefault(repr(key), []).append(i)
    if sum(1 for members in classes.values() if len(members) >= 2) >= 3:
        ctx.mark(name + "|" + "|".join(sorted(classes))[:5000])
    if ctx.index < 10:
        ctx.sample(cls=name, pool_size=n, structural_classes=len(classes),
                   members=[safe_repr(v, 120) for v in pool[:6]])


def functor_lookup(rng, ctx, name, mod, ns, pool):
    boxes = [v for v in pool if type(v).__name__ == "Box"
             and hash_ok(v)][:6]
    if not boxes:
        return
    ar = {}
    for box in boxes:
        base = box.dagger() if box.is_dagger else box
        image = mod.Box(("img", repr(struct.boxkey(base))[:60]), base.dom, base.cod)
        ar[base] = image
    functor = mod.Functor(lambda x: x, ar)
    for box in boxes:
        base = box.dagger() if box.is_dagger else box
        for route, other in [("eval-repr", lambda: eval(repr(box), dict(ns))),
                             ("dagger-twice", lambda: box.dagger().dagger()),
                             ("rebuilt", lambda: rebuilt(mod, box))]:
            try:
                twin = other()
                got = functor(twin)
                expected = ar[base].dagger() if box.is_dagger else ar[base]
                ok = got == expected
            except KeyError:
                ok = False
            ctx.expect("functor-lookup", ok, route=route, cls=name,
                       box=lambda: safe_repr(box))


def rebuilt(mod, box):
    kwargs = {} if box.data is None else {"data": box.data}
    made = mod.Box(box.name, mod.Ty(*box.cod.objects) if box.is_dagger
                   else mod.Ty(*box.dom.objects),
                   mod.Ty(*box.dom.objects) if box.is_dagger
                   else mod.Ty(*box.cod.objects), **kwargs)
    return made.dagger() if box.is_dagger else made


def hash_ok(v):
    try:
        hash(v)
        return True
    except TypeError:
        return False


def downgrade_after_hashing(ctx, name, mod, pool):
    """
    History: use a value as a dictionary key (which hashes it), downcast it,
    and compare the downcast with the downcast of an equal value that was never
    hashed.  Both are values of one class built by the same route.
    """
    seen = 0
    generators = [v for v in pool if type(v).__name__ in ("Box", "Swap", "Cup", "Cap")]
    composites = [v for v in pool if type(v).__name__ == "Diagram"]
    for v in generators[:14] + composites[:4]:
        if sort_of(v) != "arrow" or not hasattr(v, "downgrade") or not hash_ok(v):
            continue
        try:
            twin = eval(repr(v), dict(_ENV[name][1]))      # equal, never hashed
        except Exception:
            continue
        {v: 1}[v]                                      # hashes v (and its boxes)
        for box in v.boxes:
            hash(box)
        first, second = v.downgrade(), twin.downgrade()
        equal = bool(first == second) and bool(second == first)
        same_hash = hash(first) == hash(second)
        try:
            found = {first: 1}[second] == 1
        except KeyError:
            found = False
        ctx.expect("hash-consistent", (not equal) or (same_hash and found), cls=name,
                   history="hash, then downgrade()", a=lambda: safe_repr(first),
                   b=lambda: safe_repr(second), type_a=type(first).__name__,
                   type_b=type(second).__name__,
                   equal_atoms_printed_differently=lambda:
                   equal_atoms_printed_differently(first, second),
                   bubble_involved=False)
        ctx.expect("eq-iff-same-structure",
                   equal == (struct.key(first) == struct.key(second)), cls=name,
                   history="hash, then downgrade()", library_says_equal=equal,
                   a=lambda: safe_repr(first), b=lambda: safe_repr(second),
                   type_a=type(first).__name__, type_b=type(second).__name__,
                   key_a="", key_b="", bubble_involved=False)
        seen += 1
