"""
C18 - grammar front-ends only produce well-typed, grammatical derivations.

Four families of cases (ctx.index % 4):

  0 pregroup   eager_parse / brute_force on random vocabularies
  1 cfg        CFG.generate on random grammars, every parameter setting
  2 biclosed   biclosed.Functor into rigid (biclosed2rigid and user-defined
               functors with object images of length 0, 1, 2) on FA, BA, FC,
               BC, FX, BX, Curry over nested slash types with composite sides
  3 ccg        cat2ty against an independent category parser; random CCG
               trees in depccg JSON form -> tree2diagram -> biclosed2rigid

Monitors
  pregroup-parse-shape            empty dom, cod == target, the given words in
                                  order then only cups on adjacent (t, t.r)
  pregroup-parse-well-typed       independent scan of the returned diagram
  pregroup-only-NotImplementedError  any other exception on a valid request
  cfg-sentence-is-derivation      dom == Ty(), cod == start, only productions,
                                  each rewriting the leftmost open symbol
  cfg-sentence-well-typed
  cfg-no-duplicate-sentence       with remove_duplicates=True
  cfg-not-twice-respected
  cfg-generate-raises-nothing
  functor-object-map              F(t) == model image of t, for types
  functor-box-image               F(rule box): returns, dom/cod == image of the
                                  box's dom/cod, well-typed
  functor-diagram-image           same for whole diagrams (only when every box
                                  passed on its own, so that one mechanism is
                                  reported once, with the rule it belongs to)
  cat2ty-agrees-with-parser
  ccg-tree-diagram                tree2diagram: returns, dom == Ty(), cod ==
                                  parsed root category, one box per node,
                                  words in order, well-typed
  ccg-tree-rigid-image            biclosed2rigid of it: type-preserving,
                                  well-typed, words in order
"""
import random as global_random

from verif.models import grammar_model as gm
from verif.models.typing import well_typed
from verif.instrument import safe_repr

ID = "C18"
RULE = ("case family = index % 4.  pregroup: vocabulary of 2-6 words with "
        "types of length 1-4 and adjoints within +-2, one sentence generated "
        "backwards from a reduction plus perturbed/random sentences, 2-3 "
        "targets (atomic, composite, empty), brute_force capped at 50 yields / "
        "60 (quick) or 120 parse attempts; non-trivial = a parse with >= 1 cup was returned. "
        "cfg: four grammars of 2-8 productions (terminal, branching, recursive, inapplicable), "
        "random start/seed/max_depth/max_iter/max_sentences/remove_duplicates/"
        "not_twice; non-trivial = a sentence with >= 3 boxes was yielded. "
        "biclosed: slash types nested 0-3 deep with sides of 0-3 objects, every "
        "rule box and Curry (left/right, 0 <= n_wires <= len(dom)) alone and "
        "inside a diagram with other boxes, under biclosed2rigid and a random "
        "user functor (object images of length 0/1/2, ob/ar as dict or "
        "function); non-trivial = >= 3 rule boxes with a side that is not a "
        "single atom. ccg: 6 random category strings, three random trees of depth "
        "<= 4 with fa/ba/fc/unary/other rules and features; non-trivial = tree "
        "with >= 3 rule nodes.  Distinct by the repr of the generated inputs."
        "  Also: parser targets written as plain monoidal.Ty (equal and near-miss); bare application boxes curried with every n_wires.")
SIZES = {"quick": (16, 160), "thorough": (16, 3000)}
TIMEOUT = {"quick": 600, "thorough": 5400}
COVER = {     # measured: every anchored line is hit, on every seed
    "discopy.grammar.pregroup:eager_parse": 0.9,
    "discopy.grammar.pregroup:brute_force": 0.85,
    "discopy.grammar.cfg:CFG.generate": 0.9,
    "discopy.biclosed:Functor.__call__": 0.9,
    "discopy.biclosed:Curry.__init__": 0.9,
    "discopy.rigid:Diagram.fa": 0.9,
    "discopy.rigid:Diagram.ba": 0.9,
    "discopy.rigid:Diagram.fc": 0.9,
    "discopy.rigid:Diagram.bc": 0.9,
    "discopy.rigid:Diagram.fx": 0.9,
    "discopy.rigid:Diagram.bx": 0.9,
    "discopy.rigid:Diagram.curry": 0.85,
    "discopy.grammar.ccg:cat2ty": 0.85,
    "discopy.grammar.ccg:cat2ty.split": 0.85,
    "discopy.grammar.ccg:tree2diagram": 0.9,
}
MIN_EVALS = {     # about 70 % of the smallest count measured over seeds 0..4
    "quick": {"pregroup-parse-shape": 2200,
              "cfg-sentence-is-derivation": 6300,
              "functor-box-image": 7400, "functor-diagram-image": 1500,
              "functor-object-map": 2600,
              "cat2ty-agrees-with-parser": 10500,
              "ccg-tree-diagram": 1300, "ccg-tree-rigid-image": 1300},
    "thorough": {"pregroup-parse-shape": 55000,
                 "cfg-sentence-is-derivation": 120000,
                 "functor-box-image": 140000, "functor-diagram-image": 28000,
                 "functor-object-map": 50000,
                 "cat2ty-agrees-with-parser": 200000,
                 "ccg-tree-diagram": 25000, "ccg-tree-rigid-image": 25000}}
ASSUMPTIONS = [
    "NotImplementedError from eager_parse is a refusal the statement allows "
    "(only returned diagrams are constrained); it is counted, and compared "
    "with an own eager reduction for information only",
    "brute_force is an infinite generator: it is stopped after 50 yields or "
    "60/120 calls of eager_parse (a counting wrapper around the real function, "
    "installed in discopy.grammar.pregroup for the duration of the call)",
    "CFG.generate uses the global random module: a seed is always supplied "
    "(or the global generator is seeded by the harness when seed=None is the "
    "setting under test) and the global state is restored afterwards",
    "a pregroup cup is grammatical iff it joins wires (t, t.r): same name, "
    "winding numbers z and z + 1",
    "CCG category strings are depccg-style: complex operands are always "
    "bracketed (chains of unbracketed slashes are not generated), features "
    "only on atoms",
    "Curry is exercised with 0 <= n_wires <= len(diagram.dom) as documented; "
    "slash types may have the empty type as a side",
    "functor-diagram-image is evaluated only when each box of the diagram "
    "passed functor-box-image, so a defect of one rule is reported under "
    "that rule"]
TECHNIQUE = ("runtime monitoring: structural predicates over boxes/offsets, "
             "an independent object map for slash types and an independent "
             "category parser, evaluated on every returned/yielded diagram")

PG_NAMES = ["n", "s", "p", "q"]
CFG_SYMBOLS = ["S", "NP", "VP", "N", "V", "A", "PP"]
ATOMS = ["x", "y", "z", "w"]
CCG_ATOMS = ["S", "NP", "N", "PP", "conj", ",", "."]
CCG_FEATURES = {"S": ["[dcl]", "[b]", "[pss]", "[adj]", "[X]", "[ng]"],
                "NP": ["[nb]", "[conj]", "[X]"], "N": ["[num]"]}

_M = {}


def setup(ctx):
    from discopy import rigid, biclosed, monoidal
    from discopy.grammar import pregroup, cfg, ccg
    _M.update(rigid=rigid, biclosed=biclosed, monoidal=monoidal,
              pregroup=pregroup, cfg=cfg, ccg=ccg)


def run_case(rng, ctx):
    family = ctx.index % 4
    if family == 0:
        pregroup_case(rng, ctx)
    elif family == 1:
        cfg_case(rng, ctx)
    elif family == 2:
        biclosed_case(rng, ctx)
    else:
        ccg_case(rng, ctx)


def scan_ok(value):
    try:
        return well_typed(value)
    except Exception as err:
        return False, "scan raised {}: {}".format(type(err).__name__, err)


# ============================================================== pregroup ====
def rigid_ty(key):
    rigid = _M["rigid"]
    return rigid.Ty(*[rigid.Ob(name, z) for name, z in key])


def rand_pg_key(rng, n):
    return tuple((rng.choice(PG_NAMES), rng.choice([0, 0, 0, 1, -1, 1, -1, 2, -2]))
                 for _ in range(n))


def pregroup_case(rng, ctx):
    Word = _M["pregroup"].Word
    target = rng.choice([
        (("s", 0),), (("s", 0),), (("n", 0),), (), (("s", 0), ("n", -1)),
        (("n", 1), ("s", 0)), rand_pg_key(rng, 2), rand_pg_key(rng, 3)])
    # a sentence generated backwards from a reduction to `target`
    wires = list(target)
    for _ in range(rng.randint(0, 6)):
        pos = rng.randint(0, len(wires))
        name, z = rng.choice(PG_NAMES), rng.randint(-2, 1)
        wires[pos:pos] = [(name, z), (name, z + 1)]
    chunks = []
    while wires:
        n = rng.randint(1, 4)
        chunks.append(tuple(wires[:n]))
        wires = wires[n:]
    vocab_keys = list(chunks)
    while len(vocab_keys) < 2 or (len(vocab_keys) < 6 and rng.random() < .4):
        vocab_keys.append(rand_pg_key(rng, rng.randint(1, 4)))
    vocab = [Word("w{}".format(i), rigid_ty(key))
             for i, key in enumerate(vocab_keys)]
    good = vocab[:len(chunks)]
    sentences = [("reducible", good)]
    if good:
        bad = list(good)
        k = rng.randrange(len(bad))
        if rng.random() < .5:
            bad[k] = rng.choice(vocab)
        else:
            del bad[k]
        sentences.append(("perturbed", bad))
    sentences.append(("random", [rng.choice(vocab)
                                 for _ in range(rng.randint(0, 5))]))
    if rng.random() < .3:
        # repeated use of one word object
        word = rng.choice(vocab)
        sentences.append(("repeated", [word] * rng.randint(2, 3)))
    targets = [target, rng.choice([(("s", 0),), (), rand_pg_key(rng, 1),
                                   rng.choice(vocab_keys)])]
    nontrivial = False
    for label, words in sentences:
        for tkey in targets:
            nontrivial |= one_parse(ctx, label, words, tkey)
    for label, words in sentences[:2]:
        nontrivial |= one_parse(ctx, label + "/plain-target", words, target,
                                plain=True)
    cap = 60 if ctx.tier == "quick" else 120
    if rng.random() < .7:
        nontrivial |= brute(rng, ctx, vocab, rng.choice(targets), max_calls=cap)
    if rng.random() < .08:
        brute(rng, ctx, [], target)          # empty vocabulary: finite
    if nontrivial:
        ctx.mark("pregroup|{}|{}".format(vocab_keys, target))
    if ctx.index < 8:
        ctx.sample(family="pregroup", vocabulary=[safe_repr(w, 120) for w in vocab],
                   target=safe_repr(rigid_ty(target)),
                   sentence=[w.name for w in good])


def check_parse(ctx, via, diagram, words, tkey):
    target = rigid_ty(tkey)
    try:
        ok, why, n_words, n_cups = gm.pregroup_shape(diagram, words, target)
    except Exception as err:
        ok, why, n_words, n_cups = False, "model raised {}: {}".format(
            type(err).__name__, err), 0, 0
    ctx.expect("pregroup-parse-shape", ok, via=via, reason=why,
               words=lambda: [safe_repr(w, 200) for w in words],
               target=lambda: safe_repr(target),
               diagram=lambda: safe_repr(diagram),
               offsets=lambda: getattr(diagram, "offsets", None))
    ok2, why2 = scan_ok(diagram)
    ctx.expect("pregroup-parse-well-typed", ok2, via=via, reason=why2,
               diagram=lambda: safe_repr(diagram),
               offsets=lambda: getattr(diagram, "offsets", None))
    return n_cups


def one_parse(ctx, label, words, tkey, plain=False):
    eager_parse = _M["pregroup"].eager_parse
    target = rigid_ty(tkey)
    if plain:
        # the target written as a plain monoidal type: it names simple types
        # with winding number 0 only, nothing of type n.l passes for an n
        from discopy import monoidal
        target = monoidal.Ty(*[name for name, _ in tkey])
        tkey = tuple((name, 0) for name, _ in tkey)
        ctx.count("plain_monoidal_targets")
    try:
        diagram = eager_parse(*words, target=target)
    except NotImplementedError:
        ctx.refuse("eager_parse:NotImplementedError")
        ctx.ok("pregroup-only-NotImplementedError")
        if gm.eager_reduces([gm.rigid_key(w.cod) for w in words], tkey):
            ctx.count("info_refused_though_own_eager_reduction_reaches_target")
        return False
    except Exception as err:
        ctx.fail("pregroup-only-NotImplementedError", via="eager_parse",
                 exception=type(err).__name__, message=str(err)[:300],
                 words=[safe_repr(w, 200) for w in words],
                 target=safe_repr(target))
        return False
    ctx.ok("pregroup-only-NotImplementedError")
    ctx.count("eager_parse_returned:" + label)
    if not gm.eager_reduces([gm.rigid_key(w.cod) for w in words], tkey):
        ctx.count("info_returned_though_own_eager_reduction_fails")
    return check_parse(ctx, "eager_parse", diagram, words, tkey) >= 1


class _SearchCap(Exception):
    pass


def brute(rng, ctx, vocab, tkey, max_yields=50, max_calls=300):
    pregroup = _M["pregroup"]
    target = rigid_ty(tkey)
    real = pregroup.eager_parse
    calls = []

    def counting(*words, **kwargs):
        if len(calls) >= max_calls:
            raise _SearchCap()
        calls.append(words)
        return real(*words, **kwargs)
    counting.__wrapped__ = real
    yields, interesting = 0, False
    pregroup.eager_parse = counting
    try:
        try:
            for diagram in pregroup.brute_force(*vocab, target=target):
                yields += 1
                given = list(calls[-1]) if calls else []
                ctx.count("brute_force_yields")
                # the sentence is the last one handed to eager_parse; it must
                # also be made of vocabulary words only
                n_cups = check_parse(ctx, "brute_force", diagram, given, tkey)
                check_vocab = all(any(w is v for v in vocab) for w in given)
                ctx.expect("pregroup-parse-shape", check_vocab, via="brute_force",
                           reason="sentence uses a word outside the vocabulary",
                           words=lambda: [safe_repr(w, 200) for w in given])
                interesting |= n_cups >= 1
                if yields >= max_yields:
                    break
            else:
                ctx.count("brute_force_exhausted")
        except _SearchCap:
            ctx.count("brute_force_stopped_by_call_cap")
        except Exception as err:
            ctx.fail("pregroup-only-NotImplementedError", via="brute_force",
                     exception=type(err).__name__, message=str(err)[:300],
                     vocabulary=[safe_repr(w, 200) for w in vocab],
                     target=safe_repr(target))
    finally:
        pregroup.eager_parse = real
    return interesting


# =================================================================== cfg ====
def cfg_case(rng, ctx):
    for _ in range(4):
        one_grammar(rng, ctx)


def one_grammar(rng, ctx):
    monoidal, cfg = _M["monoidal"], _M["cfg"]
    Ty, Box = monoidal.Ty, monoidal.Box
    symbols = rng.sample(CFG_SYMBOLS, rng.randint(2, 5))
    start_sym = symbols[0]
    n_prods = rng.randint(2, 8)
    prods = []
    closing = rng.random() < .7      # most symbols get a terminal first
    for i in range(n_prods):
        r = rng.random()
        cod = start_sym if i == 0 else rng.choice(symbols)
        if closing and 0 < i <= len(symbols):
            r, cod = 0., symbols[i - 1]
        if r < .4:
            prod = cfg.Word("t{}".format(i), Ty(cod))
        elif r < .75:
            dom = [rng.choice(symbols) for _ in range(rng.randint(1, 3))]
            prod = Box("R{}".format(i), Ty(*dom), Ty(cod))
        elif r < .9:      # directly recursive
            dom = [rng.choice(symbols) for _ in range(rng.randint(0, 2))]
            dom.insert(rng.randint(0, len(dom)), cod)
            prod = Box("R{}".format(i), Ty(*dom), Ty(cod))
        elif r < .95:     # never applicable: composite codomain
            prod = Box("X{}".format(i), Ty(rng.choice(symbols)),
                       Ty(cod, rng.choice(symbols)))
        else:             # never applicable: empty codomain
            prod = Box("X{}".format(i), Ty(rng.choice(symbols)), Ty())
        prods.append(prod)
    if rng.random() < .15:
        prods.append(prods[rng.randrange(len(prods))])     # listed twice
    grammar = cfg.CFG(*prods)
    start = rng.choice([Ty(start_sym)] * 8 + [
        Ty(start_sym, rng.choice(symbols)), Ty(), Ty("unknown")])
    kwargs = {
        "max_sentences": rng.choice([None, 0, 1, 2, 3, 5, 10, 40]),
        "max_depth": rng.choice([0, 1, 2, 3, 4, 6, 8, 10, 12]),
        "remove_duplicates": rng.random() < .5}
    if rng.random() < .8:
        kwargs["max_iter"] = rng.choice([0, 1, 2, 5, 10, 20, 40])
    r = rng.random()
    if r < .4:
        kwargs["not_twice"] = rng.sample(prods, rng.randint(1, min(3, len(prods))))
    elif r < .5:
        kwargs["not_twice"] = []
    elif r < .6:
        kwargs["not_twice"] = None
    seed_mode = rng.choice(["int", "int", "zero", "none"])
    if seed_mode == "int":
        kwargs["seed"] = rng.randrange(10 ** 6)
    elif seed_mode == "zero":
        kwargs["seed"] = 0
    harness_seed = rng.randrange(10 ** 6)
    state = global_random.getstate()
    sentences, error = [], None
    try:
        if seed_mode == "none":
            global_random.seed(harness_seed)
        try:
            for sentence in grammar.generate(start, **kwargs):
                sentences.append(sentence)
                if len(sentences) > 500:
                    break
        except Exception as err:
            error = err
    finally:
        global_random.setstate(state)
    described = dict(
        productions=[safe_repr(p, 120) for p in prods],
        start=safe_repr(start),
        settings={k: (v if not isinstance(v, list)
                      else [safe_repr(p, 80) for p in v])
                  for k, v in kwargs.items()}, seed_mode=seed_mode)
    ctx.expect("cfg-generate-raises-nothing", error is None,
               exception=lambda: type(error).__name__,
               message=lambda: str(error)[:300], **described)
    seen = []
    not_twice = [gm.prod_key(p) for p in kwargs.get("not_twice") or []]
    for k, sentence in enumerate(sentences):
        try:
            ok, why = gm.cfg_derivation(sentence, start, prods)
        except Exception as err:
            ok, why = False, "model raised {}: {}".format(type(err).__name__, err)
        ctx.expect("cfg-sentence-is-derivation", ok, reason=why, nth=k,
                   sentence=lambda: safe_repr(sentence),
                   offsets=lambda: sentence.offsets, **described)
        ok2, why2 = scan_ok(sentence)
        ctx.expect("cfg-sentence-well-typed", ok2, reason=why2, nth=k,
                   sentence=lambda: safe_repr(sentence),
                   offsets=lambda: sentence.offsets)
        key = gm.sentence_key(sentence)
        if kwargs["remove_duplicates"]:
            ctx.expect("cfg-no-duplicate-sentence", key not in seen, nth=k,
                       sentence=lambda: safe_repr(sentence), **described)
        seen.append(key)
        if not_twice:
            used = [gm.prod_key(b) for b in sentence.boxes]
            twice = [p for p in not_twice if used.count(p) > 1]
            ctx.expect("cfg-not-twice-respected", not twice, nth=k,
                       twice=twice, sentence=lambda: safe_repr(sentence),
                       **described)
    ctx.count("cfg_sentences", len(sentences))
    if not sentences:
        ctx.count("cfg_runs_without_sentence")
    if any(len(s.boxes) >= 3 for s in sentences):
        ctx.mark("cfg|{}|{}|{}".format(described["productions"], described["start"],
                                       described["settings"]))
    if ctx.index < 8:
        ctx.sample(family="cfg", n_sentences=len(sentences),
                   first=safe_repr(sentences[0], 300) if sentences else None,
                   **described)


# ============================================================== biclosed ====
def rand_bty(rng, depth, budget, lengths=(0, 1, 1, 1, 2, 2, 3)):
    """ Random biclosed type with about `budget` atoms, nested <= depth. """
    Ty = _M["biclosed"].Ty
    n = min(rng.choice(lengths), max(budget, 1))
    ty = Ty()
    for _ in range(n):
        ty = ty @ rand_bob(rng, depth, max(1, budget // max(n, 1)))
    return ty


def rand_bob(rng, depth, budget):
    Ty = _M["biclosed"].Ty
    if depth == 0 or budget <= 1 or rng.random() < .35:
        return Ty(rng.choice(ATOMS))
    left = rand_bty(rng, depth - 1, budget // 2)
    right = rand_bty(rng, depth - 1, budget - budget // 2)
    return (left << right) if rng.random() < .5 else (left >> right)


def side(rng, depth):
    """ A side of a slash type: composite most of the time, sometimes empty. """
    return rand_bty(rng, depth, rng.choice([1, 2, 3, 4, 6]),
                    lengths=(0, 1, 1, 2, 2, 2, 3))


def plain_box(rng, dom, cod, counter):
    counter[0] += 1
    if rng.random() < .25:
        # a CCG word: a box like any other, possibly with a non-empty domain
        from discopy.grammar import ccg
        return ccg.Word("w{}".format(counter[0]), cod, dom=dom)
    return _M["biclosed"].Box("g{}".format(counter[0]), dom, cod)


def rand_rule(rng, depth, counter, curry_depth=1):
    """ Returns (kind, box, info) for one rule box. """
    bc = _M["biclosed"]
    kinds = ["FA", "BA", "FC", "BC", "FX", "BX"]
    if curry_depth > 0:
        kinds += ["Curry", "Curry"]
    kind = rng.choice(kinds)
    d = rng.randint(0, depth)
    a, b, c = side(rng, d), side(rng, d), side(rng, d)
    via_method = rng.random() < .3
    D = bc.Diagram
    if kind == "FA":
        box = D.fa(a, b) if via_method else bc.FA(a << b)
        info = {"fa_right_len": len(b), "fa_left_len": len(a)}
    elif kind == "BA":
        box = D.ba(a, b) if via_method else bc.BA(a >> b)
        info = {"ba_left_len": len(a), "ba_right_len": len(b)}
    elif kind == "FC":
        box = D.fc(a, b, c) if via_method else bc.FC(a << b, b << c)
        info = {"lens": [len(a), len(b), len(c)]}
    elif kind == "BC":
        box = D.bc(a, b, c) if via_method else bc.BC(a >> b, b >> c)
        info = {"lens": [len(a), len(b), len(c)]}
    elif kind == "FX":
        box = D.fx(a, b, c) if via_method else bc.FX(a << b, c >> b)
        info = {"lens": [len(a), len(b), len(c)]}
    elif kind == "BX":
        box = D.bx(a, b, c) if via_method else bc.BX(b << a, b >> c)
        info = {"lens": [len(a), len(b), len(c)]}
    else:
        inner = rand_bdiagram(rng, rng.randint(0, 3), depth=max(0, depth - 1),
                              counter=counter, curry_depth=curry_depth - 1,
                              dom=rand_bty(rng, max(0, depth - 1), 4,
                                           lengths=(0, 1, 2, 2, 3, 3)))
        if rng.random() < .25:
            # currying a BARE application box (not a diagram around it), with
            # composite argument types and every n_wires the box allows
            inner = bc.FA(a << b) if rng.random() < .5 else bc.BA(a >> b)
        n_wires = rng.randint(0, len(inner.dom))
        if n_wires == 0 and rng.random() < .5 and len(inner.dom):
            n_wires = rng.randint(1, len(inner.dom))
        left = rng.random() < .5
        if via_method:
            box = D.curry(inner, n_wires, left)
        elif n_wires == 1 and rng.random() < .5:
            box = bc.Curry(inner, left=left)
        else:
            box = bc.Curry(inner, n_wires, left)
        info = {"curry_n_wires": n_wires, "curry_left": left,
                "inner_dom_len": len(inner.dom), "inner_boxes": len(inner)}
    return kind, box, info


def rand_bdiagram(rng, nboxes, depth, counter, curry_depth=1, dom=None):
    """ Random biclosed diagram mixing plain boxes and rule boxes. """
    bc = _M["biclosed"]
    if dom is None:
        dom = rand_bty(rng, depth, 3, lengths=(0, 1, 1, 2, 2, 3))
    diagram, scan = bc.Id(dom), dom
    for _ in range(nboxes):
        off = rng.randint(0, len(scan))
        span = rng.randint(0, min(2, len(scan) - off))
        left, mid, right = scan[:off], scan[off:off + span], scan[off + span:]
        if rng.random() < .6:
            _, rule, _ = rand_rule(rng, depth, counter, curry_depth)
            feed = plain_box(rng, mid, rule.dom, counter)
            diagram = diagram >> bc.Id(left) @ feed @ bc.Id(right)\
                >> bc.Id(left) @ rule @ bc.Id(right)
            scan = left @ rule.cod @ right
        else:
            cod = rand_bty(rng, depth, 3, lengths=(0, 1, 1, 1, 2))
            box = plain_box(rng, mid, cod, counter)
            diagram = diagram >> bc.Id(left) @ box @ bc.Id(right)
            scan = left @ cod @ right
        if len(scan) > 5:
            box = plain_box(rng, scan[1:], bc.Ty(rng.choice(ATOMS)), counter)
            diagram = diagram >> bc.Id(scan[:1]) @ box
            scan = scan[:1] @ box.cod
    return diagram


def rule_kind(box):
    kind = type(box).__name__
    return kind if kind in ("FA", "BA", "FC", "BC", "FX", "BX", "Curry")\
        else "Box"


def rule_info(box):
    """ Mechanism-relevant facts about a rule box, from public attributes. """
    kind = rule_kind(box)
    info = {"rule": kind}
    try:
        if kind == "FA":
            over = box.dom[:1]
            info.update(fa_left_len=len(over.left), fa_right_len=len(over.right))
        elif kind == "BA":
            under = box.dom[len(box.dom) - 1:]
            info.update(ba_left_len=len(under.left), ba_right_len=len(under.right))
        elif kind == "Curry":
            info.update(curry_left=bool(box.left), curry_n_wires=box.n_wires,
                        inner_dom_len=len(box.diagram.dom))
    except Exception as err:
        info["info_error"] = type(err).__name__
    return info


class FunctorSetup:
    """ One functor into rigid plus the model's object image for it. """
    def __init__(self, rng, user):
        bc, rigid = _M["biclosed"], _M["rigid"]
        self.user = user
        if not user:
            self.images = {name: ((name, 0),) for name in ATOMS}
            self.functor = bc.biclosed2rigid
            self.describe = "biclosed2rigid"
            return
        self.images = {}
        for name in ATOMS:
            n = rng.choice([0, 1, 1, 2, 2])
            self.images[name] = tuple(
                (rng.choice(["p", "q", "r"]), rng.choice([0, 0, 1, -1]))
                for _ in range(n))
        images = self.images
        ob_as_dict, ar_as_dict = rng.random() < .5, rng.random() < .3
        if ob_as_dict:
            ob = {bc.Ty(name): rigid_ty(key) for name, key in images.items()}
        else:
            def ob(ty):
                return rigid_ty(images[ty[0].name])
        self.ar_table = {}
        setup = self

        def ar(box):
            return rigid.Box(box.name, rigid_ty(setup.image(box.dom)),
                             rigid_ty(setup.image(box.cod)))
        self.ar_fn, self.ar_as_dict = ar, ar_as_dict
        self.functor = bc.Functor(
            ob=ob, ar=self.ar_table if ar_as_dict else ar,
            ob_factory=rigid.Ty, ar_factory=rigid.Diagram)
        self.describe = "user functor ob={} ({}), ar as {}".format(
            {k: list(v) for k, v in images.items()},
            "dict" if ob_as_dict else "function",
            "dict" if ar_as_dict else "function")

    def image(self, ty):
        return gm.image(ty, lambda name: self.images[name])

    def register(self, diagram):
        """ With ar given as a dict every plain box needs an entry. """
        if self.user and self.ar_as_dict:
            for box in diagram.boxes:
                if rule_kind(box) == "Box":
                    self.ar_table[box] = self.ar_fn(box)
                elif rule_kind(box) == "Curry":
                    self.register(box.diagram)


def judge_image(ctx, monitor, fs, value, extra):
    """
    F(value) must return, have the model's image of value.dom / value.cod as
    dom / cod and be well-typed.  Returns True when it passed.
    """
    try:
        want_dom, want_cod = fs.image(value.dom), fs.image(value.cod)
    except Exception as err:
        ctx.count("harness_model_error:" + type(err).__name__)
        return False
    try:
        result = fs.functor(value)
    except Exception as err:
        ctx.fail(monitor, outcome="exception", exception=type(err).__name__,
                 message=str(err)[:300], functor=fs.describe,
                 source=safe_repr(value, 600),
                 source_type="{} -> {}".format(value.dom, value.cod)[:400],
                 expected_dom=list(want_dom), expected_cod=list(want_cod),
                 **extra)
        return False
    try:
        got_dom, got_cod = gm.rigid_key(result.dom), gm.rigid_key(result.cod)
    except Exception as err:
        got_dom = got_cod = "unreadable: " + type(err).__name__
    if got_dom != want_dom or got_cod != want_cod:
        ctx.fail(monitor, outcome="type-mismatch", functor=fs.describe,
                 source=safe_repr(value, 600),
                 source_type="{} -> {}".format(value.dom, value.cod)[:400],
                 expected_dom=list(want_dom), expected_cod=list(want_cod),
                 got_dom=list(got_dom), got_cod=list(got_cod),
                 image=safe_repr(result, 600), **extra)
        return False
    ok, why = scan_ok(result)
    if not ok:
        ctx.fail(monitor, outcome="ill-typed-image", reason=why,
                 functor=fs.describe, source=safe_repr(value, 600),
                 image=safe_repr(result, 600),
                 offsets=getattr(result, "offsets", None), **extra)
        return False
    ctx.ok(monitor)
    return True


def probe_boxes(ctx, fs, diagram, stats):
    """
    functor-box-image on every rule box of `diagram` (inner diagrams of Curry
    boxes first).  Returns True when every box passed.
    """
    clean = True
    for box in diagram.boxes:
        kind = rule_kind(box)
        if kind == "Box":
            continue
        if kind == "Curry":
            if not probe_boxes(ctx, fs, box.diagram, stats):
                ctx.count("curry_skipped_inner_box_failed")
                clean = False
                continue
        info = rule_info(box)
        if kind == "Curry":
            try:
                side_ty = box.cod.left if box.left else box.cod.right
                info["curried_image_len"] = len(fs.image(side_ty))
                info["inner_dom_image_len"] = len(fs.image(box.diagram.dom))
            except Exception as err:
                info["info_error"] = type(err).__name__
        stats["rules"] += 1
        stats["kinds"].append(kind)
        try:
            sides = [s for ob in box.dom.objects + box.cod.objects
                     if gm.slash_kind(ob) for s in (ob.left, ob.right)]
            if any(len(s) != 1 or gm.slash_kind(s) for s in sides):
                stats["composite"] += 1
        except Exception:
            pass
        if not judge_image(ctx, "functor-box-image", fs, box, info):
            clean = False
    return clean


def biclosed_case(rng, ctx):
    counter = [0]
    depth = rng.choice([0, 1, 1, 2, 2, 3])
    stats = {"rules": 0, "composite": 0, "kinds": []}
    setups = [FunctorSetup(rng, user=False), FunctorSetup(rng, user=True)]
    # -- types on their own ---------------------------------------------------
    for _ in range(3):
        ty = rand_bty(rng, depth, rng.choice([2, 4, 8, 12]))
        for fs in setups:
            want = fs.image(ty)
            try:
                got = gm.rigid_key(fs.functor(ty))
            except Exception as err:
                got = "{}: {}".format(type(err).__name__, str(err)[:200])
            ctx.expect("functor-object-map", got == want, functor=fs.describe,
                       ty=safe_repr(ty, 600), expected=list(want),
                       got=lambda: list(got) if isinstance(got, tuple) else got)
    # -- one box of each kind is drawn on its own, then diagrams --------------
    diagrams = []
    for _ in range(4):
        kind, box, _ = rand_rule(rng, depth, counter)
        diagrams.append(box)
    for _ in range(2):
        diagrams.append(rand_bdiagram(rng, rng.randint(1, 4), depth, counter))
    for diagram in diagrams:
        for fs in setups:
            fs.register(diagram)
            local = {"rules": 0, "composite": 0, "kinds": []}
            clean = probe_boxes(ctx, fs, diagram, local)
            if fs is setups[0]:
                for k in ("rules", "composite"):
                    stats[k] += local[k]
                stats["kinds"] += local["kinds"]
            if len(diagram.boxes) == 1 and diagram.boxes[0] is diagram:
                continue
            if not clean:
                ctx.count("diagram_skipped_a_box_failed_on_its_own")
                continue
            judge_image(ctx, "functor-diagram-image", fs, diagram,
                        {"rules": local["kinds"]})
    for kind in stats["kinds"]:
        ctx.count("rule:" + kind)
    if stats["composite"] >= 3:
        ctx.mark("biclosed|" + "|".join(safe_repr(d, 400) for d in diagrams))
    if ctx.index < 8:
        ctx.sample(family="biclosed", depth=depth, functor=setups[1].describe,
                   diagrams=[safe_repr(d, 300) for d in diagrams[:3]])


# =================================================================== ccg ====
def rand_cat(rng, depth):
    if depth == 0 or rng.random() < .4:
        return ("atom", rng.choice(CCG_ATOMS[:4] if rng.random() < .85
                                   else CCG_ATOMS))
    return (rng.choice(["/", "\\"]), rand_cat(rng, depth - 1),
            rand_cat(rng, depth - 1))


def cat_string(rng, node, features=True, top=True):
    """ depccg-style string: complex operands bracketed, features on atoms. """
    if node[0] == "atom":
        name = node[1]
        if features and name in CCG_FEATURES and rng.random() < .4:
            name += rng.choice(CCG_FEATURES[name])
        return name
    text = cat_string(rng, node[1], features, False) + node[0]\
        + cat_string(rng, node[2], features, False)
    return text if top else "(" + text + ")"


def check_cat2ty(ctx, text, node):
    cat2ty = _M["ccg"].cat2ty
    try:
        parsed = gm.parse_category(text)
    except Exception as err:
        ctx.count("harness_parser_error:" + type(err).__name__)
        return
    if parsed != node:
        ctx.count("harness_parser_disagrees_with_generator")
        return
    want = gm.category_key(parsed)
    try:
        got = gm.biclosed_key(cat2ty(text))
    except Exception as err:
        got = "{}: {}".format(type(err).__name__, str(err)[:200])
    ctx.expect("cat2ty-agrees-with-parser", got == want, category=text,
               expected=safe_repr(want, 800), got=lambda: safe_repr(got, 800))


def rand_tree(rng, node, depth, state):
    """ A tree whose root has category `node`; every rule applies. """
    text = cat_string(rng, node)
    state["cats"].append((text, node))
    if depth == 0 or rng.random() < .25:
        leaf = {"word": "w{}".format(len(state["leaves"])), "cat": text}
        if rng.random() < .5:
            leaf.update(lemma=leaf["word"], pos="NN", entity="O", chunk="I-NP")
        state["leaves"].append(leaf["word"])
        return leaf
    choices = ["fa", "fa", "ba", "ba", "unary", "other"]
    if node[0] == "/":
        choices += ["fc", "fc", "fc"]
    rule = rng.choice(choices)
    arg = rand_cat(rng, rng.choice([0, 0, 1, 1, 2]))
    if rule == "fa":
        kids, kind = [("/", node, arg), arg], "fa"
    elif rule == "ba":
        kids, kind = [arg, ("\\", node, arg)], "ba"
    elif rule == "fc":
        kids, kind = [("/", node[1], arg), ("/", arg, node[2])], "fc"
    elif rule == "unary":
        kids, kind = [arg], rng.choice(["lex", "tr", "unary", "un"])
    else:
        kids = [arg, rand_cat(rng, rng.choice([0, 1, 2]))]
        kind = rng.choice(["bx", "conj", "rp", "lp", "gfc", "gbx", "bc"])
    state["rules"].append(kind)
    children = [rand_tree(rng, kid, depth - 1, state) for kid in kids]
    return {"type": kind, "cat": text, "children": children}


def ccg_case(rng, ctx):
    ccg, bc = _M["ccg"], _M["biclosed"]
    for _ in range(6):
        node = rand_cat(rng, rng.choice([0, 1, 2, 3, 4]))
        check_cat2ty(ctx, cat_string(rng, node), node)
    for _ in range(3):
        one_tree(rng, ctx)


def one_tree(rng, ctx):
    ccg, bc = _M["ccg"], _M["biclosed"]
    root = rand_cat(rng, rng.choice([0, 0, 1, 2]))
    state = {"leaves": [], "rules": [], "cats": []}
    tree = rand_tree(rng, root, rng.choice([1, 2, 3, 4]), state)
    for text, node in state["cats"]:
        check_cat2ty(ctx, text, node)
    leaves = gm.ccg_leaves(tree)
    described = dict(tree=safe_repr(tree, 1500), rules=state["rules"])
    want_cod = gm.category_key(root)
    try:
        diagram = ccg.tree2diagram(tree)
    except Exception as err:
        ctx.fail("ccg-tree-diagram", outcome="exception",
                 exception=type(err).__name__, message=str(err)[:300],
                 **described)
        return
    problems = []
    if gm.biclosed_key(diagram.dom) != ():
        problems.append("domain is not Ty()")
    if gm.biclosed_key(diagram.cod) != want_cod:
        problems.append("codomain is not the root category")
    if len(diagram.boxes) != gm.ccg_nodes(tree):
        problems.append("{} boxes for {} nodes".format(
            len(diagram.boxes), gm.ccg_nodes(tree)))
    words = [b.name for b in diagram.boxes if type(b).__name__ == "Word"]
    if words != leaves:
        problems.append("words {} for leaves {}".format(words, leaves))
    try:
        ok, why = gm.planar_word_order(diagram, leaves)
    except Exception as err:
        ok, why = False, "model raised " + type(err).__name__
    if not ok:
        problems.append(why)
    ok, why = scan_ok(diagram)
    if not ok:
        problems.append("ill-typed: " + why)
    ctx.expect("ccg-tree-diagram", not problems, outcome="wrong-diagram",
               problems=problems, diagram=lambda: safe_repr(diagram, 1500),
               offsets=lambda: diagram.offsets, **described)
    if problems:
        return
    # -- into rigid -----------------------------------------------------------
    want = gm.image_of_key(want_cod, gm.identity_ob_image)
    try:
        image = bc.biclosed2rigid(diagram)
    except Exception as err:
        ctx.fail("ccg-tree-rigid-image", outcome="exception",
                 exception=type(err).__name__, message=str(err)[:300],
                 diagram=safe_repr(diagram, 1500), **described)
        return
    problems = []
    if gm.rigid_key(image.dom) != ():
        problems.append("domain is not Ty()")
    if gm.rigid_key(image.cod) != want:
        problems.append("codomain {} is not the image {} of the root "
                        "category".format(gm.rigid_key(image.cod), want))
    try:
        ok, why = gm.planar_word_order(image, leaves)
    except Exception as err:
        ok, why = False, "model raised " + type(err).__name__
    if not ok:
        problems.append(why)
    ok, why = scan_ok(image)
    if not ok:
        problems.append("ill-typed: " + why)
    ctx.expect("ccg-tree-rigid-image", not problems, outcome="wrong-image",
               problems=problems, image=lambda: safe_repr(image, 1500),
               offsets=lambda: image.offsets, **described)
    for kind in state["rules"]:
        ctx.count("ccg_rule:" + kind)
    if len(state["rules"]) >= 3:
        ctx.mark("ccg|" + described["tree"])
    if ctx.index < 8:
        ctx.sample(family="ccg", **described)


# ======================================================== known findings ====
def _ba_left_not_single(monitor, witness):
    """ BA whose under.left is not exactly one object: the functor splits the
    domain as dom[:1] / dom[1:]. """
    return monitor == "functor-box-image" and witness.get("rule") == "BA"\
        and witness.get("ba_left_len") not in (1, None)\
        and witness.get("outcome") in ("exception", "type-mismatch")


def _curry_right_empty_wires(monitor, witness):
    """ Right currying of wires whose image is empty (n_wires == 0 after the
    functor): rigid.Diagram.curry slices dom[:-0]. """
    return monitor == "functor-box-image" and witness.get("rule") == "Curry"\
        and witness.get("curry_left") is False\
        and witness.get("curried_image_len") == 0\
        and witness.get("inner_dom_image_len", 0) > 0\
        and witness.get("outcome") == "exception"\
        and witness.get("exception") == "AxiomError"


PREDICATES = {"ba_left_not_single": _ba_left_not_single,
              "curry_right_empty_wires": _curry_right_empty_wires}
