"""
C19 - cartesian diagrams compute the function they draw.

Monitors
  call-equals-fold-over-boxes   d(*xs) == fold of d.boxes/d.offsets over the
                                list of wire values (fold_eval.fold_diagram)
  call-equals-plan              d(*xs) == fold of the generating plan, where
                                Swap(n,m)/Copy(n)/Discard(n) act as a whole
  structural-as-a-whole         Swap(n,m)(xs)==xs[n:]+xs[:n], Copy(n)(xs)==xs+xs,
                                Discard(n)(xs)==() for all n, m <= 5
  function-algebra              Function.then/tensor/id expression trees
                                evaluate to the model's value
  axiom-sides-agree             both sides of a cartesian axiom agree on the input
  axiom-value                   ... and equal the value the model predicts
  call-returned                 the call returned instead of raising
  result-shape-follows-convention  one output wire -> the bare value, otherwise
                                a tuple with one entry per output wire

Wire values are opaque non-tuple Tokens (and ints where ADD is used).
"""
from verif.gen import kits
from verif.gen.kits import Pipeline, Token, token_function
from verif.models import fold_eval
from verif.models.fold_eval import as_wires

ID = "C19"
RULE = ("case kinds by index: (a) random plan of <=9 steps over width 0-5 "
        "(token boxes of every arity pair 0..3x0..3, SWAP/COPY/DISCARD/ADD, "
        "Swap(n,m)/Copy(n)/Discard(n) n,m<=5), built compositionally, raw or "
        "as a tensor of two plans, called on opaque tokens/ints; (b) random "
        "Function.then/tensor/id expression trees; (c) sweep of structural "
        "maps; (d) cartesian axioms with random sub-diagrams.  Non-trivial = "
        ">=2 steps or a structural map of width >=2; distinct by plan+inputs."
        "  Also: every plan diagram called three times (twin inputs equal but not the same value, compared by printed form too); Function objects called again; functions sharing __name__.")
SIZES = {"quick": (16, 330), "thorough": (16, 9500)}
TIMEOUT = {"quick": 600, "thorough": 5400}
COVER = {
    "discopy.cartesian:Function.then": 0.99,
    "discopy.cartesian:Function.tensor": 0.99,
    "discopy.cartesian:Function.tensor.product": 0.99,
    "discopy.cartesian:Function.id": 0.99,
    "discopy.cartesian:Function.__call__": 0.99,
    "discopy.cartesian:tuplify": 0.99,
    "discopy.cartesian:untuplify": 0.99,
    "discopy.cartesian:Diagram.__call__": 0.99,
    "discopy.cartesian:Swap.__init__": 0.99,
    "discopy.cartesian:Copy.__init__": 0.99,
    "discopy.cartesian:Discard.__init__": 0.99,
}
MIN_EVALS = {
    "quick": {"call-equals-fold-over-boxes": 5500, "call-equals-plan": 2300,
              "structural-as-a-whole": 8000, "function-algebra": 2700,
              "axiom-sides-agree": 1200, "axiom-value": 2400},
    "thorough": {"call-equals-fold-over-boxes": 150000,
                 "call-equals-plan": 65000, "structural-as-a-whole": 230000,
                 "function-algebra": 75000, "axiom-sides-agree": 35000}}
ASSUMPTIONS = [
    "wire values are never tuples (the documented tuple-or-single-value "
    "convention cannot represent a one-output box returning a tuple)",
    "the model calls the plain Python function stored on each box and never "
    "discopy.cartesian's composition code",
    "boxes are pure functions of their inputs (tokens record name, output "
    "index and inputs, so any mis-routing changes the value)"]
TECHNIQUE = ("runtime monitoring: reference fold over a list of opaque wire "
             "values compared with every observed call")

LETTERS = "fghkmpqrs"
_C = None          # discopy.cartesian


def setup(ctx):
    global _C
    from discopy import cartesian
    _C = cartesian


def _add(x, y):
    return x + y


# -- generation ---------------------------------------------------------------

def rand_inputs(rng, n, allow_ints=True):
    values, kinds = [], []
    ints = allow_ints and rng.random() < .5
    for i in range(n):
        if ints and rng.random() < .6:
            values.append(rng.randint(-50, 50))
            kinds.append("i")
        elif rng.random() < .12:
            # a list is ONE wire value (only tuples are spread over wires)
            values.append(rng.choice([[i], [], [1, 2, 3], [[i]], ["a", i]]))
            kinds.append("t")
        else:
            values.append(Token("in", i, ()))
            kinds.append("t")
    return values, kinds


def rand_plan(rng, dom, kinds, nsteps, tag="", max_width=8):
    """ Returns (plan, kinds after).  Steps carry everything the model needs. """
    plan, kinds, counter = [], list(kinds), 0
    for _ in range(nsteps):
        width = len(kinds)
        r = rng.random()
        step = None
        if r < .5:
            n_in = rng.randint(0, min(3, width))
            n_out = rng.randint(0, 3)
            if width - n_in + n_out > max_width:
                n_out = 0
            off = rng.randint(0, width - n_in)
            name = "{}{}{}_{}{}".format(rng.choice(LETTERS), tag, counter,
                                        n_in, n_out)
            counter += 1
            # the printed name of a box does not identify it: several boxes of
            # one diagram may share a name and arity and differ in their function
            shown = name if rng.random() < .6 else "op{}{}".format(n_in, n_out)
            fn = token_function(name, n_out, named=rng.random() < .5)
            if rng.random() < .12:
                fn = Pipeline(fn)      # a callable object, falsy as a list
            step = ("box", off, n_in, n_out, fn, shown)
            kinds[off:off + n_in] = ["t"] * n_out
        elif r < .58 and width >= 2:
            off = rng.randint(0, width - 2)
            step = ("swap", off, 1, 1, "SWAP")
            kinds[off:off + 2] = [kinds[off + 1], kinds[off]]
        elif r < .66 and width >= 1 and width < max_width:
            off = rng.randint(0, width - 1)
            step = ("copy", off, 1, "COPY")
            kinds[off:off + 1] = [kinds[off]] * 2
        elif r < .71 and width >= 1:
            off = rng.randint(0, width - 1)
            step = ("discard", off, 1, "DISCARD")
            kinds[off:off + 1] = []
        elif r < .79:
            spots = [i for i in range(width - 1)
                     if kinds[i] == kinds[i + 1] == "i"]
            if spots:
                off = rng.choice(spots)
                step = ("box", off, 2, 1, _add, "ADD")
                kinds[off:off + 2] = ["i"]
        elif r < .88:
            left = rng.randint(0, min(5, width))
            right = rng.randint(0, min(5, width - left))
            off = rng.randint(0, width - left - right)
            step = ("swap", off, left, right, "Swap")
            block = kinds[off:off + left + right]
            kinds[off:off + left + right] = block[left:] + block[:left]
        elif r < .95:
            n = rng.randint(0, min(5, width, max(0, max_width - width)))
            off = rng.randint(0, width - n)
            step = ("copy", off, n, "Copy")
            kinds[off:off + n] = kinds[off:off + n] * 2
        else:
            n = rng.randint(0, min(5, width))
            off = rng.randint(0, width - n)
            step = ("discard", off, n, "Discard")
            kinds[off:off + n] = []
        if step is not None:
            plan.append(step)
    return plan, kinds


def piece_of(step):
    """ The discopy diagram of one plan step. """
    kind, how = step[0], step[-1]
    if kind == "box":
        if how == "ADD":
            return _C.ADD
        return _C.Box(how, step[2], step[3], step[4])
    if kind == "swap":
        return _C.SWAP if how == "SWAP" else _C.Swap(step[2], step[3])
    if kind == "copy":
        return _C.COPY if how == "COPY" else _C.Copy(step[2])
    if kind == "discard":
        return _C.DISCARD if how == "DISCARD" else _C.Discard(step[2])
    raise ValueError(kind)


def build(rng, dom, plan, mode):
    """ Builds the cartesian diagram of a plan in one of three ways. """
    if mode == "raw":
        boxes, offsets, width = [], [], dom
        for step in plan:
            piece = piece_of(step)
            boxes += piece.boxes
            offsets += [step[1] + off for off in piece.offsets]
            width += len(piece.cod) - len(piece.dom)
        return _C.Diagram(dom, width, boxes, offsets)
    diagram, width = _C.Id(dom), dom
    for step in plan:
        piece, off = piece_of(step), step[1]
        rest = width - off - len(piece.dom)
        if mode == "nested" and rng.random() < .5:
            layer = _C.Id(off) @ (piece @ _C.Id(rest))
        else:
            layer = _C.Id(off) @ piece @ _C.Id(rest)
        diagram = diagram >> layer
        width += len(piece.cod) - len(piece.dom)
    return diagram


def show_plan(plan):
    return [tuple(x for x in step if not callable(x)) for step in plan]


def call(ctx, label, fn, args, **witness):
    """
    Calls the library; an exception on a valid input is a violation.  The
    packaging of the result follows the documented convention (wire values
    are never tuples here): the bare value for one output wire, a tuple of
    len(cod) values otherwise.
    """
    try:
        value = fn(*args)
    except Exception as err:
        ctx.fail("call-returned", what=label, exception=type(err).__name__,
                 message=str(err)[:300], args=repr(args), **witness)
        return None, False
    ctx.ok("call-returned")
    width = len(fn.cod)
    shaped = not isinstance(value, tuple) if width == 1\
        else isinstance(value, tuple) and len(value) == width
    ctx.expect("result-shape-follows-convention", shaped, what=label,
               n_outputs=width, got=lambda: repr(value), args=repr(args),
               **witness)
    return value, True


# -- case kinds ---------------------------------------------------------------

def plan_case(rng, ctx):
    mode = rng.choice(["compose", "compose", "nested", "raw", "tensor"])
    dom = rng.randint(0, 5)
    inputs, kinds = rand_inputs(rng, dom)
    if mode == "tensor":
        dom2 = rng.randint(0, 5 - dom) if dom < 5 else 0
        inputs2, kinds2 = rand_inputs(rng, dom2, allow_ints=False)
        inputs2 = [Token("in2", i, ()) if isinstance(x, Token) else x
                   for i, x in enumerate(inputs2)]
        plan1, out1 = rand_plan(rng, dom, kinds, rng.randint(0, 5), "a", 5)
        plan2, _ = rand_plan(rng, dom2, kinds2, rng.randint(0, 5), "b", 5)
        d1 = build(rng, dom, plan1, "compose")
        d2 = build(rng, dom2, plan2, rng.choice(["compose", "raw"]))
        diagram = d1 @ d2
        shift = len(out1)
        plan = plan1 + [(s[0], s[1] + shift) + tuple(s[2:]) for s in plan2]
        inputs, dom = inputs + inputs2, dom + dom2
    else:
        plan, _ = rand_plan(rng, dom, kinds, rng.randint(0, 9))
        diagram = build(rng, dom, plan, mode)
    witness = dict(mode=mode, dom=dom, plan=lambda: show_plan(plan),
                   inputs=lambda: repr(inputs),
                   offsets=lambda: list(diagram.offsets),
                   boxes=lambda: [b.name for b in diagram.boxes])
    got, returned = call(ctx, "diagram-call", diagram, inputs, **witness)
    if not returned:
        return
    got = as_wires(got)
    by_boxes = fold_eval.fold_diagram(diagram, inputs)
    by_plan = fold_eval.fold_plan(dom, plan, inputs)
    ctx.expect("call-equals-fold-over-boxes", got == by_boxes,
               got=lambda: repr(got), expected=lambda: repr(by_boxes), **witness)
    ctx.expect("call-equals-plan", got == by_plan,
               got=lambda: repr(got), expected=lambda: repr(by_plan), **witness)
    for step in plan:
        if step[0] == "box":
            ctx.count("arity_{}x{}".format(step[2], step[3]))
    call_again(rng, ctx, diagram, dom, plan, inputs, got, witness)
    # every prefix of the diagram is a diagram too: call it as well
    if len(diagram) >= 2 and rng.random() < .5:
        k = rng.randint(1, len(diagram) - 1)
        prefix = diagram[:k]
        got_p, returned = call(ctx, "prefix-call", prefix, inputs, **witness)
        if returned:
            exp_p = fold_eval.fold_diagram(prefix, inputs)
            ctx.expect("call-equals-fold-over-boxes", as_wires(got_p) == exp_p,
                       got=lambda: repr(got_p), expected=lambda: repr(exp_p),
                       prefix=k, **witness)
    big = any(s[-1] in ("Swap", "Copy", "Discard") and sum(s[2:-1]) >= 2
              for s in plan)
    if len(plan) >= 2 or big:
        ctx.mark("plan|{}|{}|{}".format(mode, show_plan(plan), inputs))
    if ctx.index < 30:
        ctx.sample(kind="plan", mode=mode, plan=show_plan(plan),
                   inputs=repr(inputs), result=repr(got))


def twin_value(rng, x):
    """ A value that is == to x and hashes like x, but is not the same value. """
    if isinstance(x, bool) or not isinstance(x, int):
        return x
    if x in (0, 1) and rng.random() < .4:
        return bool(x)
    if x == 0 and rng.random() < .5:
        return -0.0
    return float(x)


def call_again(rng, ctx, diagram, dom, plan, inputs, first, witness):
    """
    Histories: the same diagram object is called again - on values that are
    equal to the first ones without being the same (1 / 1.0 / True, 0 / -0.0),
    then once more on the first inputs.  Results are compared through their
    printed form as well, which tells such values apart.
    """
    twins = [twin_value(rng, x) for x in inputs]
    for label, xs in (("twin-inputs", twins), ("first-inputs-again", inputs)):
        got, returned = call(ctx, "diagram-call-again", diagram, xs, **witness)
        if not returned:
            return
        got = as_wires(got)
        expected = fold_eval.fold_plan(dom, plan, xs)
        ctx.expect("call-equals-plan",
                   got == expected and repr(got) == repr(expected),
                   history=label, second_inputs=repr(xs),
                   got=lambda: repr(got), expected=lambda: repr(expected),
                   **witness)
    ctx.count("diagrams_called_three_times")


def structural_case(rng, ctx):
    """ Swap(n, m), Copy(n), Discard(n) as a whole, n, m <= 5. """
    # a deterministic sweep cell chosen by the index plus a few random ones
    cell = (ctx.index // 8 + 7 * ctx.shard) % 36
    pairs = [(cell // 6, cell % 6)] + [
        (rng.randint(0, 5), rng.randint(0, 5)) for _ in range(3)]
    for left, right in pairs:
        xs, _ = rand_inputs(rng, left + right)
        witness = dict(left=left, right=right, inputs=lambda: repr(xs))
        try:
            swap = _C.Swap(left, right)
        except Exception as err:
            ctx.fail("call-returned", what="Swap()", left=left, right=right,
                     exception=type(err).__name__, message=str(err)[:300])
            continue
        got, ok = call(ctx, "Swap", swap, xs, **witness)
        if ok:
            ctx.expect("structural-as-a-whole",
                       as_wires(got) == xs[left:] + xs[:left],
                       what="Swap", got=lambda: repr(got),
                       offsets=lambda: list(swap.offsets), **witness)
            ctx.expect("structural-as-a-whole",
                       (len(swap.dom), len(swap.cod), len(swap.boxes))
                       == (left + right, left + right, left * right),
                       what="Swap-shape", **witness)
    for n in {pairs[0][0], pairs[0][1], pairs[1][0]}:
        xs, _ = rand_inputs(rng, n)
        witness = dict(n=n, inputs=lambda: repr(xs))
        try:
            copy, discard = _C.Copy(n), _C.Discard(n)
        except Exception as err:
            ctx.fail("call-returned", what="Copy()/Discard()", n=n,
                     exception=type(err).__name__, message=str(err)[:300])
            continue
        got, ok = call(ctx, "Copy", copy, xs, **witness)
        if ok:
            ctx.expect("structural-as-a-whole", as_wires(got) == xs + xs,
                       what="Copy", got=lambda: repr(got),
                       offsets=lambda: list(copy.offsets), **witness)
        got, ok = call(ctx, "Discard", discard, xs, **witness)
        if ok:
            ctx.expect("structural-as-a-whole", as_wires(got) == [],
                       what="Discard", got=lambda: repr(got), **witness)
        ctx.expect("structural-as-a-whole",
                   (len(copy.dom), len(copy.cod), len(discard.dom),
                    len(discard.cod)) == (n, 2 * n, n, 0),
                   what="Copy/Discard-shape", **witness)
    if max(pairs[0]) >= 1:
        ctx.mark("structural|{}".format(pairs))


def rand_tree(rng, dom, depth, counter):
    """ Returns (model tree, discopy Function). """
    F = _C.Function
    chunks, left = [], dom
    while left > 0:
        n = rng.randint(1, min(3, left))
        chunks.append(n)
        left -= n
    for _ in range(rng.choice([0, 0, 1, 2]) if len(chunks) < 4 else 0):
        chunks.insert(rng.randint(0, len(chunks)), 0)
    if not chunks:
        chunks = [0]
    parts = []
    for n in chunks:
        if rng.random() < .25:
            parts.append((("id", n), F.id(n)))
        else:
            m = rng.randint(0, 3)
            counter[0] += 1
            name = "{}{}_{}{}".format(rng.choice(LETTERS), counter[0], n, m)
            fn = token_function(name, m)
            parts.append((("leaf", n, m, fn, name), F(n, m, fn)))
    # associate the tensor randomly
    how = rng.random()
    if len(parts) >= 2 and how < .2:
        model, real = parts[0]
        real = real.tensor(*[p[1] for p in parts[1:]])
        for other in parts[1:]:
            model = ("tensor", model, other[0])
    else:
        while len(parts) > 1:
            i = rng.randint(0, len(parts) - 2)
            (ma, ra), (mb, rb) = parts[i], parts[i + 1]
            real = ra @ rb if rng.random() < .5 else ra.tensor(rb)
            parts[i:i + 2] = [(("tensor", ma, mb), real)]
        model, real = parts[0]
    if depth > 0 and rng.random() < .75:
        cod = fold_eval.tree_arity(model)[1]
        if cod <= 6:
            model2, real2 = rand_tree(rng, cod, depth - 1, counter)
            r = rng.random()
            if r < .15 and model2[0] == "then":
                # variadic then: a.then(b, c)
                real = real.then(*split_then(real2, model2))
            elif r < .6:
                real = real >> real2
            else:
                real = real.then(real2)
            model = ("then", model, model2)
    return model, real


def split_then(real, model):
    """ Variadic composition needs the factors; rebuild them from the model. """
    return [realise(model[1]), realise(model[2])]


def realise(model):
    F = _C.Function
    kind = model[0]
    if kind == "leaf":
        return F(model[1], model[2], model[3])
    if kind == "id":
        return F.id(model[1])
    if kind == "then":
        return realise(model[1]) >> realise(model[2])
    return realise(model[1]) @ realise(model[2])


def show_tree(tree):
    kind = tree[0]
    if kind == "leaf":
        return tree[4]
    if kind == "id":
        return "id{}".format(tree[1])
    op = " >> " if kind == "then" else " @ "
    return "(" + show_tree(tree[1]) + op + show_tree(tree[2]) + ")"


def function_case(rng, ctx):
    dom = rng.randint(0, 5)
    counter = [0]
    try:
        model, real = rand_tree(rng, dom, rng.randint(0, 3), counter)
    except Exception as err:
        ctx.fail("call-returned", what="Function-composition",
                 exception=type(err).__name__, message=str(err)[:300])
        return
    inputs, _ = rand_inputs(rng, dom, allow_ints=False)
    shown = show_tree(model)
    arity = fold_eval.tree_arity(model)
    ctx.expect("function-algebra",
               (len(real.dom), len(real.cod)) == arity,
               what="arity", tree=shown, got=(len(real.dom), len(real.cod)),
               expected=arity)
    got, ok = call(ctx, "Function-call", real, inputs, tree=shown)
    if ok:
        expected = fold_eval.eval_tree(model, inputs)
        ctx.expect("function-algebra", as_wires(got) == expected,
                   what="value", tree=shown, inputs=repr(inputs),
                   got=lambda: repr(got), expected=lambda: repr(expected))
    # the same Function object called again: same answer
    if ok:
        for _ in range(2):
            got_b, ok_b = call(ctx, "Function-call-again", real, inputs, tree=shown)
            if ok_b:
                ctx.expect("function-algebra", as_wires(got_b) == expected
                           and repr(as_wires(got_b)) == repr(expected),
                           what="the same Function object called again",
                           tree=shown, inputs=repr(inputs),
                           got=lambda: repr(got_b), expected=lambda: repr(expected))
    # the same tree rebuilt with binary operators only must agree as well
    if rng.random() < .3:
        again = realise(model)
        got2, ok2 = call(ctx, "Function-call", again, inputs, tree=shown)
        if ok and ok2:
            ctx.expect("function-algebra", as_wires(got2) == as_wires(got),
                       what="rebuild", tree=shown, inputs=repr(inputs),
                       got=lambda: repr(got2), expected=lambda: repr(got))
    # Function.id on its own, all widths
    n = rng.randint(0, 5)
    xs, _ = rand_inputs(rng, n)
    got, ok = call(ctx, "Function.id", _C.Function.id(n), xs)
    if ok:
        ctx.expect("function-algebra", as_wires(got) == xs, what="id", n=n,
                   got=lambda: repr(got), expected=lambda: repr(xs))
    if counter[0] >= 2:
        ctx.mark("function|{}|{}".format(shown, inputs))
    if ctx.index < 40:
        ctx.sample(kind="function", tree=shown, inputs=repr(inputs))
    refusals(rng, ctx)


def refusals(rng, ctx):
    """ Requests outside the quantifier: only counted, never judged. """
    F = _C.Function
    f = F(2, 1, token_function("f", 1))
    for label, fn in [
            ("then-non-function", lambda: f.then("g")),
            ("tensor-non-function", lambda: f.tensor("g")),
            ("then-mismatch", lambda: f.then(F.id(2))),
            ("call-wrong-length", lambda: f(1, 2, 3))]:
        try:
            fn()
            ctx.count("hostile_returned:" + label)
        except Exception as err:
            ctx.refuse("{}:{}".format(label, type(err).__name__))


def sub_diagram(rng, dom, tag, max_steps=3, allow_ints=False):
    """ Small random diagram used as `f`, `g` in the axioms. """
    inputs, kinds = rand_inputs(rng, dom, allow_ints)
    inputs = [Token("in" + tag, i, ()) if isinstance(x, Token) else x
              for i, x in enumerate(inputs)]
    plan, out = rand_plan(rng, dom, kinds, rng.randint(1, max_steps), tag, 4)
    diagram = build(rng, dom, plan, rng.choice(["compose", "raw"]))
    return diagram, plan, inputs, len(out)


def judge_axiom(ctx, law, lhs_fn, rhs_fn, inputs, expected, **witness):
    sides = []
    for label, fn in (("lhs", lhs_fn), ("rhs", rhs_fn)):
        try:
            diagram = fn()
        except Exception as err:
            ctx.fail("call-returned", what="axiom-construction", law=law,
                     side=label, exception=type(err).__name__,
                     message=str(err)[:300], **witness)
            return
        got, ok = call(ctx, "axiom-" + label, diagram, inputs, law=law,
                       **witness)
        if not ok:
            return
        got = as_wires(got)
        sides.append(got)
        ctx.expect("axiom-value", got == expected, law=law, side=label,
                   inputs=repr(inputs), got=lambda: repr(got),
                   expected=lambda: repr(expected), **witness)
        # and each side is the fold over its own boxes
        folded = fold_eval.fold_diagram(diagram, inputs)
        ctx.expect("call-equals-fold-over-boxes", got == folded, law=law,
                   side=label, inputs=repr(inputs), got=lambda: repr(got),
                   expected=lambda: repr(folded),
                   offsets=lambda: list(diagram.offsets), **witness)
    ctx.expect("axiom-sides-agree", sides[0] == sides[1], law=law,
               inputs=repr(inputs), lhs=lambda: repr(sides[0]),
               rhs=lambda: repr(sides[1]), **witness)


def axiom_case(rng, ctx):
    C = _C
    Id, Swap, Copy, Discard = C.Id, C.Swap, C.Copy, C.Discard
    law = ["swap-naturality", "swap-naturality", "yang-baxter",
           "copy-naturality", "copy-naturality", "discard-naturality",
           "counit", "coassociativity", "cocommutativity",
           "swap-involution"][ctx.index // 4 % 10]
    if law == "swap-naturality":
        f, pf, xf, cf = sub_diagram(rng, rng.randint(0, 3), "f")
        g, pg, xg, cg = sub_diagram(rng, rng.randint(0, 3), "g")
        df, dg = len(xf), len(xg)
        expected = fold_eval.fold_plan(dg, pg, xg)\
            + fold_eval.fold_plan(df, pf, xf)
        judge_axiom(ctx, law,
                    lambda: f @ g >> Swap(cf, cg),
                    lambda: Swap(df, dg) >> g @ f,
                    xf + xg, expected,
                    f=show_plan(pf), g=show_plan(pg), widths=(df, cf, dg, cg))
        ctx.mark("{}|{}|{}|{}".format(law, show_plan(pf), show_plan(pg), xf + xg))
    elif law == "yang-baxter":
        a, b, c = (rng.randint(0, 3) for _ in range(3))
        xs, _ = rand_inputs(rng, a + b + c)
        expected = xs[a + b:] + xs[a:a + b] + xs[:a]
        judge_axiom(
            ctx, law,
            lambda: Swap(a, b) @ Id(c) >> Id(b) @ Swap(a, c)
            >> Swap(b, c) @ Id(a),
            lambda: Id(a) @ Swap(b, c) >> Swap(a, c) @ Id(b)
            >> Id(c) @ Swap(a, b),
            xs, expected, widths=(a, b, c))
        if a and b and c:
            ctx.mark("{}|{}|{}".format(law, (a, b, c), xs))
    elif law == "copy-naturality":
        f, pf, xf, cf = sub_diagram(rng, rng.randint(0, 4), "f",
                                    allow_ints=True)
        out = fold_eval.fold_plan(len(xf), pf, xf)
        judge_axiom(ctx, law,
                    lambda: f >> Copy(cf),
                    lambda: Copy(len(xf)) >> f @ f,
                    xf, out + out, f=show_plan(pf), widths=(len(xf), cf))
        ctx.mark("{}|{}|{}".format(law, show_plan(pf), xf))
    elif law == "discard-naturality":
        f, pf, xf, cf = sub_diagram(rng, rng.randint(0, 5), "f",
                                    allow_ints=True)
        judge_axiom(ctx, law,
                    lambda: f >> Discard(cf),
                    lambda: Discard(len(xf)),
                    xf, [], f=show_plan(pf), widths=(len(xf), cf))
        ctx.mark("{}|{}|{}".format(law, show_plan(pf), xf))
    elif law == "counit":
        n = rng.randint(0, 5)
        xs, _ = rand_inputs(rng, n)
        judge_axiom(ctx, law + "-right",
                    lambda: Copy(n) >> Id(n) @ Discard(n), lambda: Id(n),
                    xs, xs, n=n)
        judge_axiom(ctx, law + "-left",
                    lambda: Copy(n) >> Discard(n) @ Id(n), lambda: Id(n),
                    xs, xs, n=n)
        if n >= 2:
            ctx.mark("{}|{}|{}".format(law, n, xs))
    elif law == "coassociativity":
        n = rng.randint(0, 5)
        xs, _ = rand_inputs(rng, n)
        judge_axiom(ctx, law,
                    lambda: Copy(n) >> Copy(n) @ Id(n),
                    lambda: Copy(n) >> Id(n) @ Copy(n),
                    xs, xs + xs + xs, n=n)
        if n >= 2:
            ctx.mark("{}|{}|{}".format(law, n, xs))
    elif law == "cocommutativity":
        n = rng.randint(0, 5)
        xs, _ = rand_inputs(rng, n)
        judge_axiom(ctx, law,
                    lambda: Copy(n) >> Swap(n, n), lambda: Copy(n),
                    xs, xs + xs, n=n)
        if n >= 2:
            ctx.mark("{}|{}|{}".format(law, n, xs))
    else:
        a, b = rng.randint(0, 5), rng.randint(0, 5)
        xs, _ = rand_inputs(rng, a + b)
        judge_axiom(ctx, law,
                    lambda: Swap(a, b) >> Swap(b, a), lambda: Id(a + b),
                    xs, xs, widths=(a, b))
        if a and b:
            ctx.mark("{}|{}|{}".format(law, (a, b), xs))


def run_case(rng, ctx):
    kind = ctx.index % 4
    if kind in (0, 2):
        plan_case(rng, ctx)
    elif kind == 1:
        if ctx.index % 16 == 5:
            structural_case(rng, ctx)
        else:
            function_case(rng, ctx)
    else:
        axiom_case(rng, ctx)
    if ctx.index % 16 == 13:
        structural_case(rng, ctx)
