"""
C16 - circuits translate to ZX diagrams denoting the same linear map.

Monitors
  zx-denotes-circuit-up-to-scalar  zx_interp(circuit2zx(c)) == k * c.eval() for
                                   one non-zero k (zero maps to zero); both as
                                   [input, output] matrices, rtol=atol=1e-9
  zx-wire-counts                   len(dom), len(cod) of circuit2zx(c) == those of c
  zx-dagger-is-conjugate-transpose zx_interp(z.dagger()) == conj-transpose (numpy)
                                   of zx_interp(z); dom/cod exchanged
  translation-returns              circuit2zx / dagger / eval raised on an input
                                   inside the quantifier

The reference for the first monitor is the circuit's own pure evaluation
(``c.eval()``), as the statement says, so defects of gate arrays (C11) do not
leak into this check.  A mismatch is re-examined against the mechanisms
reconnaissance saw (CRz / CU1 gadgets with unhalved angles, CRx gadget with
unhalved angle and colours exchanged): the same spec is rebuilt with the gate
the defective decomposition actually denotes (CRz(2p), CU1(2p),
H@H >> CRz(2p) >> H@H) and the witness carries ``mechanism`` only when the ZX
diagram is proportional to *that* evaluation.
"""
import itertools
import math

import numpy

from verif.instrument import safe_repr
from verif.models import zx_interp as zi

ID = "C16"
RULE = ("case kinds by index: (every 64th) gate sweep = each of H, X, Y, Z, CX, "
        "CZ, SWAP, Y.dagger(), scalar, sqrt once and Rx, Rz, CRz, CRx, CU1 at "
        "26 phases (14 fixed incl. 0, +-1/4, +-1/2, +-1, 2 and irrational ones, "
        "12 seeded draws from [-2,2]), Ket/Bra for all bitstrings of length "
        "<=3, probes of gates outside the supported set (refusals); (index mod "
        "8 in 1, 2) a "
        "random ZX diagram (Z/X spiders of arity 0-3 each side, H, SWAP, "
        "complex scalars, <=5 wires, <=8 boxes) for the dagger law; (else) a "
        "random pure circuit on 0-3 qubits, depth <=8, over the supported "
        "set incl. kets/bras and scalars, translated, interpreted, compared "
        "up to one factor, then the dagger law on the translated diagram.  "
        "Non-trivial = >=3 boxes or a sweep; distinct by the written-out spec."
        "  Also: generators obtained as daggers of bare spiders; [::-1] and the double dagger.")
SIZES = {"quick": (16, 192), "thorough": (16, 4800)}
TIMEOUT = {"quick": 600, "thorough": 5400}
COVER = {
    "discopy.quantum.zx:gate2zx": 1.0,
    "discopy.quantum.zx:Spider.dagger": 1.0,
    "discopy.quantum.zx:Scalar.dagger": 1.0,
    "discopy.quantum.zx:Had.dagger": 1.0,
}
MIN_EVALS = {
    "quick": {"zx-denotes-circuit-up-to-scalar": 9000, "zx-wire-counts": 9000,
              "zx-dagger-is-conjugate-transpose": 9500},
    "thorough": {"zx-denotes-circuit-up-to-scalar": 150000,
                 "zx-dagger-is-conjugate-transpose": 60000}}
ASSUMPTIONS = [
    "standard interpretation as in verif/models/zx_interp.py (validated in "
    "reconnaissance against tket on the textbook decompositions of CX, CZ, "
    "CRz, CU1, CRx, Rz, Rx, Y, SWAP)",
    "'up to one non-zero scalar': one global factor per circuit read at the "
    "largest entry of c.eval(); a circuit evaluating to 0 (max |entry| <= "
    "1e-9) must translate to a diagram denoting 0",
    "supported set = {Ket, Bra, H, X, Y, Z, CX, CZ, Rx, Rz, CRz, CRx, CU1, "
    "SWAP, scalar (incl. sqrt)} plus their daggers (Y.dagger() is the only "
    "one not already in the set); S, T, Ry, Controlled(Z), mixed scalars are "
    "probed only to record the refusal",
    "decided at finitely many real phases (fixed list incl. irrational values "
    "plus seeded uniform draws from [-2, 2])"]
TECHNIQUE = "runtime monitoring: reference-model monitor (standard ZX " \
            "interpretation by Kronecker products) over seeded workloads"

TOL = 1e-9
FIXED_PHASES = (0, 0.25, -0.25, 0.5, -0.5, 1, -1, 2, 0.125, 1 / 3,
                math.sqrt(2) / 2, -math.pi / 4, 1 / math.e, -math.sqrt(3))
ONE_QUBIT = ("H", "X", "Y", "Z")
TWO_QUBIT = ("CX", "CZ", "SWAP")
ONE_QUBIT_ROT = ("Rx", "Rz")
TWO_QUBIT_ROT = ("CRz", "CRx", "CU1")
M_CRZ, M_CU1, M_CRX = "CRz-angle-not-halved", "CU1-angle-not-halved",\
    "CRx-colours-exchanged-and-angle-not-halved"
TRIGGER = {"CRz": M_CRZ, "CU1": M_CU1, "CRx": M_CRX}

_G = _Id = _ZX = _circuit2zx = None
_REPORTED = set()


def setup(ctx):
    global _G, _Id, _ZX, _circuit2zx
    from discopy.quantum import gates, zx
    from discopy.quantum.circuit import Id
    _G, _Id, _ZX, _circuit2zx = gates, Id, zx, zx.circuit2zx


def report(ctx, monitor, mechanism, jointly_with, **witness):
    """ See c11.report: explained repeats are counted, not re-recorded. """
    key = (monitor, mechanism, tuple(jointly_with))
    if mechanism is not None and key in _REPORTED:
        ctx.ok(monitor)
        ctx.count("repeat:{}:{}".format(monitor, mechanism))
        return
    _REPORTED.add(key)
    ctx.fail(monitor, mechanism=mechanism, jointly_with=list(jointly_with),
             **witness)


# --------------------------------------------------------------------------
# circuit specs
# --------------------------------------------------------------------------
def spec(kind, phase=None, dagger=False, bits=None, value=None, offset=0):
    return {"kind": kind, "phase": phase, "dagger": dagger, "bits": bits,
            "value": value, "offset": offset}


N_QUBITS = {"H": 1, "X": 1, "Y": 1, "Z": 1, "Rx": 1, "Rz": 1, "CX": 2, "CZ": 2,
            "SWAP": 2, "CRz": 2, "CRx": 2, "CU1": 2}


def arity(s):
    kind = s["kind"]
    if kind in ("scalar", "sqrt"):
        return 0, 0
    if kind in ("Ket", "Bra"):
        n = len(s["bits"])
        return (0, n) if (kind == "Ket") != s["dagger"] else (n, 0)
    return N_QUBITS[kind], N_QUBITS[kind]


def build(s, mech=frozenset()):
    """
    The discopy circuit of a spec.  With `mech`, the gate that the *known
    defective* decomposition denotes instead (only to explain a mismatch).
    """
    g, kind = _G, s["kind"]
    if kind == "scalar":
        box = g.scalar(s["value"])
    elif kind == "sqrt":
        box = g.sqrt(s["value"])
    elif kind in ("Ket", "Bra"):
        box = getattr(g, kind)(*s["bits"])
    elif s["phase"] is None:
        box = getattr(g, kind)
    elif TRIGGER.get(kind) in mech:
        if kind == "CRx":
            box = g.H @ g.H >> g.CRz(2 * s["phase"]) >> g.H @ g.H
        else:
            box = getattr(g, kind)(2 * s["phase"])
    else:
        box = getattr(g, kind)(s["phase"])
    return box.dagger() if s["dagger"] else box


def describe(s):
    text = s["kind"]
    if s["phase"] is not None:
        text += "({!r})".format(s["phase"])
    if s["bits"] is not None:
        text += "({})".format(", ".join(map(str, s["bits"])))
    if s["value"] is not None:
        text += "({!r})".format(s["value"])
    return text + (".dagger()" if s["dagger"] else "")


def describe_all(steps):
    return ["{}@{}".format(describe(s), s["offset"]) for s in steps]


def compose(n_in, steps, mech=frozenset()):
    circuit, width = _Id(n_in), n_in
    for s in steps:
        k_in, k_out = arity(s)
        circuit = circuit >> _Id(s["offset"]) @ build(s, mech)\
            @ _Id(width - s["offset"] - k_in)
        width += k_out - k_in
    return circuit


def applicable(steps):
    return sorted({TRIGGER[s["kind"]] for s in steps if s["kind"] in TRIGGER})


def subsets(names):
    for size in range(1, len(names) + 1):
        for subset in itertools.combinations(names, size):
            yield frozenset(subset)


def eval_matrix(circuit):
    """ c.eval() as a (2**n_in, 2**n_out) matrix, [input, output]. """
    tensor = circuit.eval()
    return numpy.asarray(tensor.array, dtype=complex).reshape(
        2 ** len(circuit.dom), 2 ** len(circuit.cod))


def library(ctx, what, fn, steps=None, allowed=()):
    try:
        return fn()
    except allowed as err:
        ctx.refuse("{}:{}".format(what, type(err).__name__))
        return None
    except Exception as err:
        ctx.fail("translation-returns", operation=what, mechanism=None,
                 exception=type(err).__name__, message=str(err)[:300],
                 spec=describe_all(steps) if steps else None)
        return None


def small(matrix):
    return numpy.round(matrix, 6).tolist() if matrix.size <= 16\
        else "<{}x{}>".format(*matrix.shape)


def check_translation(ctx, n_in, steps, dagger_law=True):
    """ circuit -> zx -> interpretation vs c.eval(), up to one factor. """
    circuit = library(ctx, "compose", lambda: compose(n_in, steps), steps)
    if circuit is None:
        return None
    diagram = library(ctx, "circuit2zx", lambda: _circuit2zx(circuit), steps)
    reference = library(ctx, "eval", lambda: eval_matrix(circuit), steps)
    if diagram is None or reference is None:
        return None
    ctx.ok("translation-returns")
    ctx.expect("zx-wire-counts",
               (len(diagram.dom), len(diagram.cod))
               == (len(circuit.dom), len(circuit.cod)),
               mechanism=None, spec=describe_all(steps),
               circuit=safe_repr(circuit, 600), diagram=safe_repr(diagram, 600))
    try:
        denoted = zi.evaluate(diagram)
    except zi.Unsupported as err:
        ctx.fail("zx-denotes-circuit-up-to-scalar", mechanism=None,
                 reason="not a ZX diagram over Z, X, H, SWAP, scalar: " + str(err),
                 spec=describe_all(steps), diagram=safe_repr(diagram, 600))
        return None
    verdict, factor, why = zi.proportional(denoted, reference, TOL)
    if verdict:
        ctx.ok("zx-denotes-circuit-up-to-scalar")
    else:
        witness = dict(
            spec=describe_all(steps), kinds=sorted({s["kind"] for s in steps}),
            reason=why, factor_at_largest_entry=repr(factor),
            circuit=safe_repr(circuit, 600), diagram=safe_repr(diagram, 800),
            zx_denotes=small(denoted), circuit_eval=small(reference))
        explained = None
        for mech in subsets(applicable(steps)):
            try:
                emulated = eval_matrix(compose(n_in, steps, mech))
            except Exception:
                continue
            if zi.proportional(denoted, emulated, TOL)[0]:
                explained = mech
                break
        if explained:
            for name in sorted(explained):
                report(ctx, "zx-denotes-circuit-up-to-scalar", name,
                       sorted(explained - {name}), **witness)
        else:
            report(ctx, "zx-denotes-circuit-up-to-scalar", None, [], **witness)
    if dagger_law:
        check_zx_dagger(ctx, diagram, denoted, describe_all(steps))
    return diagram


def check_zx_dagger(ctx, diagram, denoted, origin):
    dag = library(ctx, "zx dagger", diagram.dagger)
    if dag is None:
        return
    try:
        denoted_dag = zi.evaluate(dag)
    except zi.Unsupported as err:
        ctx.fail("zx-dagger-is-conjugate-transpose", mechanism=None,
                 reason=str(err), diagram=safe_repr(diagram, 600),
                 dagger=safe_repr(dag, 600))
        return
    ok = (len(dag.dom), len(dag.cod)) == (len(diagram.cod), len(diagram.dom))\
        and denoted_dag.shape == denoted.T.shape\
        and bool(numpy.allclose(denoted_dag, zi.adjoint(denoted),
                                rtol=TOL, atol=TOL))
    ctx.expect("zx-dagger-is-conjugate-transpose", ok, mechanism=None,
               origin=origin, diagram=safe_repr(diagram, 800),
               dagger=safe_repr(dag, 800),
               kinds=lambda: sorted({zi.kind_of(b) for b in diagram.boxes}),
               denoted_by_dagger=lambda: small(denoted_dag),
               adjoint_of_denoted=lambda: small(zi.adjoint(denoted)))
    if not ok:
        return
    # the dagger fed back in: [::-1] agrees, and the double dagger denotes the
    # original again
    for how, fn in (("slice [::-1]", lambda: diagram[::-1]),
                    ("dagger of the dagger", dag.dagger)):
        again = library(ctx, "zx " + how, fn)
        if again is None:
            continue
        try:
            value = zi.evaluate(again)
        except zi.Unsupported:
            continue
        want = zi.adjoint(denoted) if how.startswith("slice") else denoted
        ctx.expect("zx-dagger-is-conjugate-transpose",
                   value.shape == want.shape and bool(numpy.allclose(
                       value, want, rtol=TOL, atol=TOL)), mechanism=None,
                   origin=origin, how=how, diagram=safe_repr(diagram, 800),
                   result=lambda: safe_repr(again, 800))


# --------------------------------------------------------------------------
# case kinds
# --------------------------------------------------------------------------
def rand_phase(rng):
    r = rng.random()
    if r < .3:
        return rng.choice(FIXED_PHASES)
    if r < .4:
        return rng.choice([0, 1, -1, 2, -2])
    return rng.uniform(-2, 2)


def rand_scalar(rng):
    r = rng.random()
    if r < .04:
        return 0
    if r < .3:
        return round(rng.uniform(-2, 2), 3) or 1.5
    return complex(round(rng.uniform(-1.5, 1.5), 3),
                   round(rng.uniform(-1.5, 1.5), 3))


def gate_sweep(rng, ctx):
    phases = list(FIXED_PHASES) + [rng.uniform(-2, 2) for _ in range(12)]
    for kind in ONE_QUBIT + TWO_QUBIT:
        check_translation(ctx, N_QUBITS[kind], [spec(kind)])
    check_translation(ctx, 1, [spec("Y", dagger=True)])
    for kind in ONE_QUBIT_ROT + TWO_QUBIT_ROT:
        for phase in phases:
            check_translation(ctx, N_QUBITS[kind], [spec(kind, phase)])
        check_translation(ctx, N_QUBITS[kind],
                          [spec(kind, rng.uniform(-2, 2), dagger=True)])
    for _ in range(3):
        check_translation(ctx, 0, [spec("scalar", value=rand_scalar(rng))])
    check_translation(ctx, 0, [spec("sqrt", value=rng.choice([2, 0.5, 3.0]))])
    for n in range(4):
        for bits in itertools.product((0, 1), repeat=n):
            check_translation(ctx, 0, [spec("Ket", bits=bits)])
            check_translation(ctx, n, [spec("Bra", bits=bits)])
    g = _G
    for name, fn in [("S", lambda: g.S), ("T", lambda: g.T),
                     ("Ry", lambda: g.Ry(0.3)),
                     ("Controlled(Z)", lambda: g.Controlled(g.Z)),
                     ("mixed-scalar", lambda: g.scalar(0.5, is_mixed=True))]:
        try:
            _circuit2zx(fn())
            ctx.count("outside-set-translated:" + name)
        except (KeyError, NotImplementedError) as err:
            ctx.refuse("outside-set:{}:{}".format(name, type(err).__name__))
        except Exception as err:
            ctx.count("outside-set-raised:{}:{}".format(
                name, type(err).__name__))
    ctx.mark("sweep|" + repr(phases[len(FIXED_PHASES):]))
    if ctx.shard % 4 == 0:
        ctx.sample(kind="gate sweep", phases=phases)


def rand_gate(rng, width):
    for _ in range(50):
        r = rng.random()
        if r < .2:
            s = spec(rng.choice(ONE_QUBIT))
        elif r < .4:
            s = spec(rng.choice(TWO_QUBIT))
        elif r < .55:
            s = spec(rng.choice(ONE_QUBIT_ROT), rand_phase(rng))
        elif r < .75:
            s = spec(rng.choice(TWO_QUBIT_ROT), rand_phase(rng))
        elif r < .83:
            s = spec("scalar", value=rand_scalar(rng)) if rng.random() < .75\
                else spec("sqrt", value=rng.choice([2, 0.5, 3.0, 1.21]))
        else:
            n = rng.randint(1, 2)
            s = spec(rng.choice(["Ket", "Bra"]),
                     bits=tuple(rng.randint(0, 1) for _ in range(n)))
        if s["kind"] not in ("scalar", "sqrt") and rng.random() < .2:
            s["dagger"] = True       # Y.dagger() flag; rotations negate; Ket<->Bra
        k_in, k_out = arity(s)
        if k_in > width or width - k_in + k_out > 3:
            continue
        s["offset"] = rng.randint(0, width - k_in)
        return s
    return spec("scalar", value=1.5, offset=rng.randint(0, width))


def rand_rotation_or_preparation(rng, width):
    """ Rotations of one colour interleaved with Ket/Bra that shift the wires. """
    for _ in range(50):
        if rng.random() < .6:
            s = spec(rng.choice(ONE_QUBIT_ROT), rand_phase(rng))
        else:
            s = spec(rng.choice(["Ket", "Bra"]), bits=(rng.randint(0, 1),))
        k_in, k_out = arity(s)
        if k_in > width or width - k_in + k_out > 3:
            continue
        s["offset"] = rng.randint(0, width - k_in)
        return s
    return spec("scalar", value=1.5, offset=rng.randint(0, width))


def random_circuit(rng, ctx):
    n_in = rng.randint(0, 3)
    steps, width = [], n_in
    biased = rng.random() < .3
    for _ in range(rng.randint(1, 8)):
        s = rand_rotation_or_preparation(rng, width) if biased\
            else rand_gate(rng, width)
        steps.append(s)
        width += arity(s)[1] - arity(s)[0]
    diagram = check_translation(ctx, n_in, steps)
    if len(steps) >= 3:
        ctx.mark("circuit|{}|{}".format(n_in, describe_all(steps)))
    if ctx.shard % 4 in (1, 2) and len(steps) >= 3 and diagram is not None:
        ctx.sample(kind="circuit", n_in=n_in, spec=describe_all(steps),
                   zx=safe_repr(diagram, 500))


def rand_zx_box(rng, width):
    zx = _ZX
    for _ in range(50):
        r = rng.random()
        if r < .1:
            data = rng.choice([2, -1, 0.5]) if rng.random() < .3 else complex(
                round(rng.uniform(-1.5, 1.5), 3), round(rng.uniform(-1.5, 1.5), 3))
            return zx.scalar(data), 0, 0
        if r < .22 and width >= 1:
            return zx.H, 1, 1
        if r < .32 and width >= 2:
            return zx.SWAP, 2, 2
        n_in = rng.randint(0, min(3, width))
        n_out = rng.randint(0, 3)
        if width - n_in + n_out > 5:
            continue
        cls = zx.Z if rng.random() < .5 else zx.X
        if rng.random() < .3:
            # the generator is itself obtained as the dagger of a bare spider
            return cls(n_out, n_in, rand_phase(rng)).dagger(), n_in, n_out
        return cls(n_in, n_out, rand_phase(rng)), n_in, n_out
    return zx.scalar(1j), 0, 0


def random_zx(rng, ctx):
    zx = _ZX
    n_in = rng.randint(0, 3)

    def make():
        diagram, width = zx.Id(n_in), n_in
        for _ in range(rng.randint(1, 8)):
            box, k_in, k_out = rand_zx_box(rng, width)
            offset = rng.randint(0, width - k_in)
            diagram = diagram >> zx.Id(offset) @ box\
                @ zx.Id(width - offset - k_in)
            width += k_out - k_in
        return diagram
    diagram = library(ctx, "compose zx", make)
    if diagram is None:
        return
    try:
        denoted = zi.evaluate(diagram)
    except zi.Unsupported as err:      # harness generated it: cannot happen
        ctx.fail("translation-returns", operation="interpret generated zx",
                 mechanism=None, message=str(err), diagram=safe_repr(diagram))
        return
    check_zx_dagger(ctx, diagram, denoted, "random zx")
    if len(diagram.boxes) >= 3:
        ctx.mark("zx|" + safe_repr(diagram, 600))
    if ctx.shard % 4 == 3:
        ctx.sample(kind="zx dagger", diagram=safe_repr(diagram, 500))


def run_case(rng, ctx):
    kind = ctx.index % 8
    if ctx.index % 64 == 0:
        gate_sweep(rng, ctx)
    elif kind in (1, 2):
        random_zx(rng, ctx)
    else:
        random_circuit(rng, ctx)


# --------------------------------------------------------------------------
# known findings
# --------------------------------------------------------------------------
def _pred(mechanism, kind):
    def predicate(monitor, witness):
        return monitor == "zx-denotes-circuit-up-to-scalar"\
            and witness.get("mechanism") == mechanism\
            and kind in witness.get("kinds", [])
    return predicate


PREDICATES = {
    "crz_angle": _pred(M_CRZ, "CRz"),
    "cu1_angle": _pred(M_CU1, "CU1"),
    "crx_decomposition": _pred(M_CRX, "CRx"),
}
