"""
C15 - diagrammatic gradients evaluate to the gradient of the evaluation.

Workload: one parametrised diagram per case and one differentiation variable.
Arms: pure circuits (grad(x, mixed=False), amplitudes), mixed circuits
(default parameter-shift gradient, CQ map), sums of circuits, classical gates,
tensor diagrams with symbolic boxes, single-wire polynomial bubbles, sums of
tensor diagrams, jacobians, generic symbolic boxes (refusal), ZX (information
only).

Monitors
  grad-returns                    grad hands back a value (allowed refusals are counted, not failed)
  refusal-warranted               NotImplementedError only where the statement allows it
  grad-vs-sympy                   eval(d.grad(x)) == d/dx eval(d) with sympy, at 3 random real points
  grad-vs-finite-difference       the same against central differences (h=1e-5) of the *numeric*
                                  evaluation of d.lambdify(...)(v +- h)
  absent-symbol-empty-sum         a diagram without the symbol has the empty sum as gradient
  jacobian-returns / jacobian-vs-sympy / jacobian-stacks-in-order
"""
import random

import numpy
import sympy

from verif.models import sym
from verif.instrument import safe_repr

ID = "C15"
RULE = ("case = (arm, random parametrised diagram with <=3 qubits / <=2 tensor "
        "wires and <=6 parametrised boxes whose phases or entries are affine "
        "and non-linear expressions of 1-3 symbols, one differentiation "
        "variable occurring in >=1 box, 3 random real points); non-trivial = "
        "the gradient was compared with the sympy derivative; distinct by the "
        "repr of the diagram, the variable and the mode."
        "  Also: both gradient modes on one small pure circuit; the gradient lambdified once and called at every point (circuits); daggered classical gates (real symbols).")
SIZES = {"quick": (16, 18), "thorough": (16, 250)}
TIMEOUT = {"quick": 900, "thorough": 5400}
COVER = {
    "discopy.tensor:Diagram.grad": 1.0,
    "discopy.tensor:Diagram.jacobian": 1.0,
    "discopy.tensor:Box.grad": 0.9,
    "discopy.tensor:Bubble.grad": 1.0,
    "discopy.tensor:Tensor.grad": 1.0,
    "discopy.quantum.gates:Rotation.grad": 0.8,
    "discopy.quantum.gates:CU1.grad": 0.75,
    "discopy.quantum.gates:CRz.grad": 0.75,
    "discopy.quantum.gates:CRx.grad": 0.75,
    "discopy.quantum.gates:Scalar.grad": 1.0,
    "discopy.quantum.gates:ClassicalGate.grad": 0.7,
    "discopy.quantum.circuit:Circuit.grad": 1.0,
    "discopy.quantum.circuit:Circuit.jacobian": 0.7,
    "discopy.quantum.circuit:Box.grad": 1.0,
    "discopy.quantum.circuit:Sum.eval": 0.8,
    "discopy.quantum.circuit:Sum.grad": 1.0,
    "discopy.quantum.zx:Spider.grad": 0.8,
}
MIN_EVALS = {
    "quick": {"grad-vs-sympy": 150, "grad-vs-finite-difference": 150,
              "absent-symbol-empty-sum": 170, "jacobian-vs-sympy": 25,
              "jacobian-stacks-in-order": 15},
    "thorough": {"grad-vs-sympy": 2200, "grad-vs-finite-difference": 2200,
                 "jacobian-vs-sympy": 350}}
ASSUMPTIONS = [
    "parameters are real: every symbol is read as real when the evaluation is "
    "differentiated (the CQ map of a circuit is not holomorphic)",
    "mixed gradients are evaluated with mixed=True on both sides (the CQ map)",
    "finite differences: h=1e-5, tolerance 1e-6 scaled by max(1,|derivative|) "
    "plus a Richardson estimate of the truncation error",
    "the numeric instances for finite differences come from d.lambdify(*xs)(*vs); "
    "when lambdify raises, leaves symbols or changes a flag (C14's business) the "
    "harness rebuilds the diagram box by box instead (counted)",
    "jacobians of circuits are compared semantically in the default (mixed) "
    "mode only: with mixed=False the Digits states make every term a mixed "
    "circuit; the order of stacking is checked structurally in both modes",
    "ZX gradients are informational only (no evaluation is defined in discopy)",
    "NotImplementedError from controlled rotations in mixed mode and from "
    "generic symbolic circuit boxes is an allowed refusal; those cases are "
    "re-checked in pure mode",
    "tensor diagrams with daggered boxes or bubbles use real symbols (the "
    "derivative of a conjugate is otherwise undefined)",
    "per shard at most 10 violations per listed mechanism are recorded "
    "verbatim, further ones matching the same predicate are counted only"]
TECHNIQUE = ("runtime monitoring: sympy differentiation of the symbolic "
             "evaluation and central finite differences of numeric "
             "evaluations as two independent reference models")

CAP = 10
_SEEN = {}
_S = {}


# --------------------------------------------------------------------------
# known-finding predicates
# --------------------------------------------------------------------------
_SCALARS = ("quantum.gates.Scalar", "quantum.gates.Sqrt",
            "quantum.gates.MixedScalar")
_VALUE_MONITORS = ("grad-vs-sympy", "grad-vs-finite-difference",
                   "jacobian-vs-sympy")


def p_scalar_grad_mixed(monitor, w):
    """ Scalar.grad in mixed mode: s' instead of d|s|^2, is_mixed dropped. """
    return monitor in _VALUE_MONITORS and w.get("mode") == "mixed"\
        and w.get("failure") == "value-mismatch"\
        and any(c in _SCALARS for c in w.get("var_classes", []))


def p_bubble_hidden(monitor, w):
    """
    A bubble reports no free symbols, so Diagram.grad skips it as soon as it
    is one layer of a larger diagram: the observed gradient equals the
    derivative with the bubbles' content held constant.
    """
    return monitor in _VALUE_MONITORS and w.get("arm") in ("tensor-bubble",)\
        and w.get("bubble_composed") is True\
        and (w.get("skipped_bubbles_with_var") or 0) > 0\
        and w.get("matches_frozen_bubble_model") is True


def p_bubble_hidden_absent(monitor, w):
    return False


def p_tensor_sum_grad(monitor, w):
    """ tensor.Sum has no grad of its own and reports no free symbols. """
    return monitor in _VALUE_MONITORS and w.get("arm") == "tensor-sum"\
        and w.get("top_level_sum") is True and w.get("gradient_terms") == 0\
        and w.get("failure") == "value-mismatch"


def p_tensor_grad_kwargs(monitor, w):
    """ Tensor.grad forwards mixed=... to sympy's diff / its own fallback. """
    return monitor == "grad-returns" and w.get("exception") == "TypeError"\
        and "unexpected keyword argument 'mixed'" in w.get("message", "")\
        and "quantum.gates.ClassicalGate" in w.get("var_classes", [])\
        and w.get("mode") == "pure"


def p_bubble_composite_inside(monitor, w):
    """
    Bubble.grad builds Spider(1, 2, dim=self.dom); the dom of a bubble around
    a composite diagram is a rigid.Ty, which Spider wraps in Dim(...): TypeError.
    """
    return monitor in ("grad-returns", "absent-symbol-empty-sum",
                       "jacobian-returns")\
        and w.get("exception") == "TypeError"\
        and w.get("message", "").startswith("Expected builtins.int, got")\
        and w.get("arm") == "tensor-bubble"\
        and w.get("bubble_inside_composite") is True


def p_tensor_box_grad_unguarded(monitor, w):
    """
    tensor.Box.grad and tensor.Bubble.grad have no 'variable absent -> empty
    sum' guard (every other grad has): called on the box itself they return a
    bubble that evaluates to zero instead of the empty sum.
    """
    return monitor == "absent-symbol-empty-sum"\
        and w.get("failure") == "not-the-empty-sum"\
        and w.get("top_level_class") in ("tensor.Box", "tensor.Bubble")\
        and w.get("gradient_evaluates_to_zero") is True


PREDICATES = {
    "tensor_box_grad_unguarded": p_tensor_box_grad_unguarded,
    "bubble_grad_composite_inside": p_bubble_composite_inside,
    "scalar_grad_mixed": p_scalar_grad_mixed,
    "bubble_hides_symbols": p_bubble_hidden,
    "tensor_sum_grad": p_tensor_sum_grad,
    "classicalgate_grad_kwargs": p_tensor_grad_kwargs,
}


_LISTED = []


def listed_predicates():
    """ Predicates of the entries with status "known" (read once, read-only). """
    if not _LISTED:
        from verif import findings
        _LISTED.append({e.get("predicate") for e in findings.load(ID)
                        if e.get("status") == "known"})
    return _LISTED[0]


def report(ctx, monitor, **witness):
    w = {k: (v() if callable(v) else v) for k, v in witness.items()}
    for name, pred in PREDICATES.items():
        if name not in listed_predicates():
            continue          # only mechanisms still listed as known are capped
        try:
            hit = pred(monitor, w)
        except Exception:
            hit = False
        if hit:
            _SEEN[name] = _SEEN.get(name, 0) + 1
            if _SEEN[name] > CAP:
                ctx.ok(monitor)
                ctx.count("failure-not-recorded-repeat-of:" + name)
                return False
            break
    ctx.fail(monitor, **w)
    return False


def expect(ctx, monitor, cond, **witness):
    if cond:
        ctx.ok(monitor)
        return True
    return report(ctx, monitor, **witness)


# --------------------------------------------------------------------------
# generators
# --------------------------------------------------------------------------
def setup(ctx):
    x, y, z = sympy.symbols("x y z")
    r, s = sympy.symbols("r s", real=True)
    _S["complex"] = [x, y, z]
    _S["real"] = [r, s, sympy.Symbol("t", real=True)]
    _S["absent"] = sympy.Symbol("w")


def clsname(obj):
    return type(obj).__module__.replace("discopy.", "") + "." + type(obj).__name__


def coeff(rng):
    return rng.choice([1, 2, -1, 0.5, sympy.Rational(1, 2), 1.5, -2,
                       sympy.Rational(1, 3)])


def const(rng):
    return rng.choice([0, 0, 0.25, 1, -0.5, sympy.Rational(1, 3), 0.125])


def phase_expr(rng, x, others, nonlinear=True):
    """ An expression that contains x. """
    expr = _phase_expr(rng, x, others, nonlinear)
    return expr if x in getattr(expr, "free_symbols", ()) else x


def _phase_expr(rng, x, others, nonlinear=True):
    y = rng.choice(others) if others else x
    kind = rng.randrange(9 if nonlinear else 4)
    if kind == 0:
        return x
    if kind == 1:
        return coeff(rng) * x + const(rng)
    if kind == 2:
        return x + coeff(rng) * y
    if kind == 3:
        return -x / 2 + const(rng)
    if kind == 4:
        return x * y + const(rng)
    if kind == 5:
        return x ** 2 / 2 + const(rng)
    if kind == 6:
        return coeff(rng) * x * y + y / 2 + x
    if kind == 7:
        return sympy.sin(x) / 2 + const(rng)
    return x ** 2 - x * y / 2


def poly_entry(rng, x, others):
    y = rng.choice(others) if others else x
    kind = rng.randrange(7)
    if kind == 0:
        return x
    if kind == 1:
        return rng.choice([2, -1, 3]) * x + rng.choice([0, 1, -2])
    if kind == 2:
        return x * y
    if kind == 3:
        return x ** 2 - rng.choice([1, 2])
    if kind == 4:
        return x ** 3 / 2 + y
    if kind == 5:
        return x * y ** 2 + 1
    return (x + 1) * (x - y)


def gen_circuit(rng, syms, x, mode, classical=False):
    from discopy.quantum import circuit as qc, gates as g
    from discopy.quantum.circuit import qubit, bit, Id
    mixed = mode == "mixed"
    n = rng.choice([1, 1, 2, 2]) if mixed else rng.choice([1, 2, 2, 3])
    kinds = ["q"] * n
    others = [s for s in syms if s != x]
    boxes = 0
    budget = rng.randint(2, 5 if mixed else 6)
    x_budget = rng.randint(1, 2 if mixed else 3)
    x_used = 0
    if rng.random() < 0.75:
        d = g.Ket(*[rng.randint(0, 1) for _ in range(n)])
    else:
        d = Id(qubit ** n)

    def ty(ks):
        t = qc.Ty()
        for k in ks:
            t = t @ (qubit if k == "q" else bit)
        return t

    def place(box, off):
        nonlocal d, boxes
        span = len(box.dom)
        d = d >> Id(ty(kinds[:off])) @ box @ Id(ty(kinds[off + span:]))
        kinds[off:off + span] = ["q" if o.name == "qubit" else "b"
                                 for o in box.cod]
        boxes += 1

    def expr():
        nonlocal x_used
        if x_used < x_budget and (x_used == 0 or rng.random() < 0.7):
            x_used += 1
            return phase_expr(rng, x, others)
        if others and rng.random() < 0.7:
            y = rng.choice(others)
            return phase_expr(rng, y, [o for o in others if o != y],
                              nonlinear=False)
        return rng.choice([0.25, 0.5, 0.3, 1])

    while boxes < budget or x_used == 0:
        qs = [i for i, k in enumerate(kinds) if k == "q"]
        pairs = [i for i in qs if i + 1 in qs]
        u = rng.random()
        if u < 0.45 and qs:
            place(rng.choice([g.Rx, g.Ry, g.Rz])(expr()), rng.choice(qs))
        elif u < (0.53 if mixed else 0.62) and pairs:
            place(rng.choice([g.CRz, g.CRx, g.CU1])(expr()), rng.choice(pairs))
        elif u < 0.72 and qs:
            place(rng.choice([g.H, g.X, g.Z, g.S, g.T, g.H]), rng.choice(qs))
        elif u < 0.80 and pairs:
            place(rng.choice([g.CX, g.CX, g.CZ]), rng.choice(pairs))
        elif u < 0.93:
            flavour = rng.randrange(7 if mixed else 5)
            want_x = x_used == 0 or rng.random() < (0.3 if mixed else 0.5)
            v = x if want_x else (rng.choice(others) if others else None)
            if v is None or flavour == 4:
                box = g.scalar(rng.choice([0.5, 2, 1j, -1.5]))
            else:
                rest = [s for s in syms if s != v]
                if v is x:
                    x_used += 1
                if flavour == 0:
                    box = g.scalar(phase_expr(rng, v, rest))
                elif flavour == 1:
                    box = g.scalar(phase_expr(rng, v, rest, False)
                                   * rng.choice([1j, 0.5 + 0.5j, 2]))
                elif flavour == 2:
                    box = g.sqrt(rng.choice([1, 2]) * v ** 2 + rng.choice([1, 0.5]))
                elif flavour == 3:
                    box = g.scalar(sympy.exp(sympy.I * v) * rng.choice([1, 0.5]))
                elif flavour == 5:
                    box = g.MixedScalar(phase_expr(rng, v, rest))
                else:
                    box = g.scalar(phase_expr(rng, v, rest), is_mixed=True)
            place(box, rng.randint(0, len(kinds)))
        elif qs and rng.random() < 0.4 and len(qs) > 1:
            place(g.Bra(rng.randint(0, 1)), rng.choice(qs))
        if boxes > 12:
            break
    qs = [i for i, k in enumerate(kinds) if k == "q"]
    if mixed and qs and rng.random() < 0.45:
        place(rng.choice([qc.Measure(), qc.Discard()]), rng.choice(qs))
        qs = [i for i, k in enumerate(kinds) if k == "q"]
    for _ in range(len(qs)):
        qs = [i for i, k in enumerate(kinds) if k == "q"]
        if qs and rng.random() < 0.4:
            place(g.Bra(rng.randint(0, 1)), rng.choice(qs))
    return d


def gen_classical(rng, syms, x):
    from discopy.quantum import gates as g
    from discopy.quantum.circuit import bit, Id
    others = [s for s in syms if s != x]
    width = rng.choice([0, 1, 1])
    d = Id(bit ** width)
    for k in range(rng.randint(1, 3)):
        span = rng.randint(0, min(1, width)) if width else 0
        out = rng.randint(0 if width - span else 1, 2 - (width - span))
        size = 2 ** (span + out)
        entries = [poly_entry(rng, x if (i == 0 and k == 0) or rng.random() < 0.4
                              else (rng.choice(others) if others else x), syms)
                   if (i == 0 or rng.random() < 0.5) else rng.choice([0, 1, 2, 0.5])
                   for i in range(size)]
        if all(v.is_real for v in syms) and rng.random() < .4:
            # the gate occurs as a dagger (real symbols only, so that the
            # conjugation commutes with the derivative)
            box = g.ClassicalGate(rng.choice("fgh"), out, span, entries).dagger()
        else:
            box = g.ClassicalGate(rng.choice("fgh"), span, out, entries)
        off = rng.randint(0, width - span)
        d = d >> Id(bit ** off) @ box @ Id(bit ** (width - off - span))
        width = width - span + out
    return d


def gen_generic(rng, syms, x):
    from discopy.quantum import circuit as qc, gates as g
    from discopy.quantum.circuit import qubit
    box = qc.Box("b", qubit, qubit, data=phase_expr(rng, x, []))
    return g.Ket(0) >> g.Rx(x) >> box >> g.Rz(0.25)


# -- tensor: layered -----------------------------------------------------------
def gen_tensor(rng, syms, x):
    from discopy import tensor
    from discopy.tensor import Dim
    others = [s for s in syms if s != x]
    scan = [rng.choice([2, 2, 3]) for _ in range(rng.randint(0, 2))]
    d = tensor.Id(Dim(*scan))
    nboxes = rng.randint(1, 4)
    with_x = {rng.randrange(nboxes)} | {k for k in range(nboxes)
                                        if rng.random() < 0.4}
    for k in range(nboxes):
        span = rng.randint(0, min(2, len(scan)))
        off = rng.randint(0, len(scan) - span)
        dom = scan[off:off + span]
        room = 2 - (len(scan) - span)
        cod = [rng.choice([2, 2, 3])
               for _ in range(rng.randint(0, max(0, min(2, room))))]
        size = int(numpy.prod(dom + cod)) if dom + cod else 1
        entries = []
        for i in range(size):
            if rng.random() < 0.5 or i == 0:
                v = x if (k in with_x and (i == 0 or rng.random() < 0.5))\
                    else (rng.choice(others) if others else x)
                entries.append(poly_entry(rng, v, syms))
            else:
                entries.append(rng.choice([0, 1, -1, 2, 0.5]))
        if rng.random() < 0.25:
            box = tensor.Box(rng.choice("fgh"), Dim(*cod), Dim(*dom),
                             entries).dagger()
        else:
            box = tensor.Box(rng.choice("fgh"), Dim(*dom), Dim(*cod), entries)
        d = d >> tensor.Id(Dim(*scan[:off])) @ box\
            @ tensor.Id(Dim(*scan[off + span:]))
        scan[off:off + span] = cod
    return d


# -- tensor: single-wire chains with bubbles (built from specs) --------------------
FUNCS = {
    "square": lambda z: z ** 2,
    "cubic": lambda z: z ** 3 + z,
    "affine": lambda z: 2 * z + 1,
    "quadratic": lambda z: z * z - 3 * z,
}


def chain_specs(rng, syms, x, length, dim, bubbles=True, depth=0):
    """ [(kind, ...)] describing a chain of dim -> dim items on one wire. """
    others = [s for s in syms if s != x]
    specs = []
    for k in range(length):
        if bubbles and depth < 2 and rng.random() < 0.45:
            inner = chain_specs(rng, syms, x, rng.randint(1, 2), dim, True,
                                depth + 1)
            specs.append(("bubble", inner, dim, dim, rng.choice(sorted(FUNCS))))
            continue
        entries = []
        for i in range(dim * dim):
            if rng.random() < 0.55 or i == 0:
                v = x if rng.random() < 0.6 else (
                    rng.choice(others) if others else x)
                entries.append(poly_entry(rng, v, syms))
            else:
                entries.append(rng.choice([0, 1, -1, 2]))
        specs.append(("box", rng.choice("fgh"), dim, dim, entries))
    return specs


def spec_has(spec, x):
    if spec[0] == "box":
        return any(isinstance(e, sympy.Basic) and x in e.free_symbols
                   for e in spec[4])
    return any(spec_has(s, x) for s in spec[1])


def build_chain(specs, freeze=None, x=None, frozen_here=False, dead=None):
    """
    A single item is returned as the Box / Bubble itself (its types stay Dim).

    With `freeze` ({x: twin}) the diagram is built as tensor.Diagram.grad
    *sees* it on the pinned tree: a bubble reports no free symbols, so a
    bubble at position i of a chain is skipped unless some plain box at a
    position >= i contains x; the content of a skipped bubble is rewritten
    with the twin symbol (held constant).  `dead` collects the skipped
    bubbles that do contain x.
    """
    from discopy import tensor
    from discopy.tensor import Dim
    d = None
    for i, spec in enumerate(specs):
        if spec[0] == "box":
            _, name, a, b, entries = spec
            if frozen_here:
                entries = [e.xreplace(freeze) if isinstance(e, sympy.Basic)
                           else e for e in entries]
            piece = tensor.Box(name, Dim(a), Dim(b), list(entries))
        else:
            _, inner, a, b, fname = spec
            skipped = frozen_here
            if freeze is not None and not skipped and len(specs) > 1:
                skipped = not any(s[0] == "box" and spec_has(s, x)
                                  for s in specs[i:])
                if skipped and dead is not None and spec_has(spec, x):
                    dead.append(fname)
            body = build_chain(inner, freeze, x, skipped, dead)
            # the drawing name does not identify the function: by position the
            # bubble gets the default name, its function's name or a shared one
            if i % 3 == 0:
                piece = body.bubble(func=FUNCS[fname])
            else:
                piece = body.bubble(func=FUNCS[fname],
                                    drawing_name=fname if i % 3 == 1 else "f")
        d = piece if d is None else d >> piece
    return d


def composite_inside(specs):
    """ Some bubble (at any depth) encloses more than one item. """
    return any(s[0] == "bubble" and (len(s[1]) > 1 or composite_inside(s[1]))
               for s in specs)


def specs_have_x(specs, x, inside=False, only_inside=False):
    for spec in specs:
        if spec[0] == "box":
            if (inside or not only_inside) and any(
                    isinstance(e, sympy.Basic) and x in e.free_symbols
                    for e in spec[4]):
                return True
        elif specs_have_x(spec[1], x, True, only_inside):
            return True
    return False


def has_bubble(specs):
    return any(s[0] == "bubble" for s in specs)


ARMS = ["circuit-pure", "circuit-mixed", "tensor", "circuit-pure",
        "tensor-bubble", "circuit-mixed", "jacobian-circuit", "circuit-pure",
        "tensor-sum", "circuit-sum", "tensor", "jacobian-tensor",
        "circuit-mixed", "classical", "tensor-bubble", "circuit-pure",
        "zx-info", "circuit-mixed", "jacobian-circuit", "generic"]


# --------------------------------------------------------------------------
# observation helpers
# --------------------------------------------------------------------------
def evaluate(d, circuit, mixed):
    """ Returns (flat object array, evaluated value or None). """
    if circuit:
        value = d.eval(mixed=mixed)
    else:
        value = d.eval()
    if isinstance(value, (int, float)):
        return None, value
    return numpy.asarray(value.array, dtype=object).flatten(), value


def var_classes(d, x):
    boxes = []
    if hasattr(d, "terms") and isinstance(d.terms, list):
        for t in d.terms:
            boxes += t.boxes
    else:
        boxes = d.boxes
    return sorted({clsname(b) for b in boxes if x in sym.box_symbols(b)})


def refusal_expected(d, x, mode):
    """ Which allowed refusals the statement grants for this (diagram, mode). """
    out = set()
    boxes = []
    if hasattr(d, "terms") and isinstance(d.terms, list):
        for t in d.terms:
            boxes += t.boxes
    else:
        boxes = d.boxes
    for b in boxes:
        if x not in sym.box_symbols(b):
            continue
        name = clsname(b)
        if name in ("quantum.gates.CRz", "quantum.gates.CRx",
                    "quantum.gates.CU1") and mode == "mixed":
            out.add("controlled-rotation-mixed")
        if name == "quantum.circuit.Box":
            out.add("generic-symbolic-box")
    return out


class Instancer:
    """ Numeric instances of a diagram for the finite-difference oracle. """
    def __init__(self, ctx, d, syms, circuit, mixed):
        self.ctx, self.d, self.syms = ctx, d, sym.sort_symbols(syms)
        self.circuit, self.mixed = circuit, mixed
        self.path = None

    def flags(self, diagram):
        if hasattr(diagram, "terms") and isinstance(diagram.terms, list):
            return [self.flags(t) for t in diagram.terms]
        return [(clsname(b), bool(getattr(b, "is_dagger", False)),
                 bool(getattr(b, "is_mixed", False))) for b in diagram.boxes]

    def via_lambdify(self, env):
        inst = self.d.lambdify(*self.syms)(*[env[s] for s in self.syms])
        if sym.diagram_symbols(inst) or self.flags(inst) != self.flags(self.d):
            raise ValueError("lambdify left symbols or changed a flag")
        return inst

    def __call__(self, env):
        inst = None
        if self.path in (None, "lambdify"):
            try:
                inst = self.via_lambdify(env)
                if self.path is None:
                    self.ctx.count("fd-instances-via-lambdify")
                self.path = "lambdify"
            except Exception:
                if self.path is None:
                    self.ctx.count("fd-instances-via-harness-rebuild")
                self.path = "rebuild"
        if inst is None:
            inst = sym.instantiate(self.d, env)
        flat, _ = evaluate(inst, self.circuit, self.mixed)
        return sym.numeric(flat)


def compare_gradient(ctx, rng, d, x, G, circuit, mixed, base, frozen=None):
    """
    eval(G) against the sympy derivative of eval(d) and against finite
    differences.  Returns True when the sympy comparison was reached.
    """
    syms = sym.diagram_symbols(d) | {x}
    envs = sym.random_points(rng, syms, n=3)
    try:
        E, Evalue = evaluate(d, circuit, mixed)
    except Exception as err:
        ctx.refuse("symbolic-eval-of-original:" + type(err).__name__)
        return False
    if E is None:
        ctx.count("original-evaluates-to-a-python-number")
        return False
    try:
        GE, _ = evaluate(G, circuit, mixed)
    except Exception as err:
        report(ctx, "grad-evaluates", failure="exception",
               exception=type(err).__name__, message=str(err)[:300],
               gradient=safe_repr(G, 500), **base)
        return False
    ctx.ok("grad-evaluates")
    if GE is None:                       # the empty sum evaluates to 0
        GE = numpy.zeros(len(E), dtype=object)
    try:
        expected = sym.diff_numeric(E, x, envs, syms)
    except sym.Unresolved as err:
        ctx.count("sympy-derivative-unavailable")
        return False
    try:
        got = sym.numeric_many(GE, envs)
    except sym.Unresolved as err:
        report(ctx, "grad-vs-sympy", failure="unresolved-symbols",
               reason=str(err), gradient=safe_repr(G, 500), **base)
        return True
    extra = {}
    if any(g.shape != e.shape for g, e in zip(got, expected)):
        report(ctx, "grad-vs-sympy", failure="shape-mismatch",
               shapes=[list(got[0].shape), list(expected[0].shape)],
               gradient=safe_repr(G, 500), **base)
        return True
    ok = all(sym.close(g, e) for g, e in zip(got, expected))
    if not ok and frozen is not None:
        extra["matches_frozen_bubble_model"] = frozen_matches(
            frozen, x, envs, got, circuit, mixed)
    expect(ctx, "grad-vs-sympy", ok, failure="value-mismatch",
           max_diff=lambda: max(sym.max_diff(g, e) for g, e in zip(got, expected)),
           got=lambda: safe_repr(got[0][:8], 300),
           expected=lambda: safe_repr(expected[0][:8], 300),
           point=lambda: safe_repr(envs[0], 200),
           gradient=lambda: safe_repr(G, 500), **extra, **base)
    if ok and circuit:
        # (not for tensor diagrams: their gradients are bubbles that
        # differentiate the evaluated inside, which no longer depends on the
        # variable once it has been substituted)
        lambdified_gradient(ctx, G, syms, envs, got, circuit, mixed, base)
    # finite differences of numeric instances (no symbolic evaluation involved)
    inst = Instancer(ctx, d, syms, circuit, mixed)
    try:
        results = []
        for env, g in list(zip(envs, got))[:2]:
            fd, err = sym.finite_difference(inst, env, x)
            results.append((sym.fd_close(fd, err, g), fd, g))
    except Exception as err:
        ctx.count("finite-difference-unavailable:" + type(err).__name__)
        return True
    expect(ctx, "grad-vs-finite-difference", all(r[0] for r in results),
           failure="value-mismatch", instances=inst.path,
           max_diff=lambda: max(sym.max_diff(r[1], r[2]) for r in results),
           gradient=lambda: safe_repr(G, 500), **extra, **base)
    return True


def lambdified_gradient(ctx, G, syms, envs, got, circuit, mixed, base):
    """
    Histories: the gradient is lambdified ONCE (as a training loop does) and
    the function is called at every point; each call evaluates to the value
    the gradient has at that point.
    """
    ordered = sym.sort_symbols(syms)
    try:
        function = G.lambdify(*ordered)
        values = []
        for env in envs:
            inst = function(*[env[s] for s in ordered])
            flat, _ = evaluate(inst, circuit, mixed)
            values.append(numpy.zeros(got[0].shape, dtype=complex)
                          if flat is None else sym.numeric(flat))
    except Exception as err:
        ctx.count("lambdified-gradient-unavailable:" + type(err).__name__)
        return
    ok = all(v.shape == g.shape and sym.close(v, g) for v, g in zip(values, got))
    expect(ctx, "grad-vs-sympy", ok, failure="lambdified-gradient-differs",
           calls=len(values),
           call_that_differs=lambda: [k for k, (v, g) in enumerate(zip(values, got))
                                      if v.shape != g.shape or not sym.close(v, g)],
           gradient=lambda: safe_repr(G, 500), **base)
    ctx.count("lambdified-gradients-called-repeatedly")


def frozen_matches(frozen, x, envs, got, circuit, mixed):
    """ Is the observed gradient the derivative with bubble contents frozen? """
    d_frozen, twin = frozen
    try:
        E, _ = evaluate(d_frozen, circuit, mixed)
        syms = sym.diagram_symbols(d_frozen) | {x}
        envs2 = [{**env, twin: env[x]} for env in envs]
        expected = sym.diff_numeric(E, x, envs2, syms)
        return all(sym.close(g, e) for g, e in zip(got, expected))
    except Exception:
        return None


def is_empty_sum(G, d):
    return hasattr(G, "terms") and isinstance(G.terms, list)\
        and len(G.terms) == 0 and G.dom == d.dom and G.cod == d.cod


def check_absent(ctx, d, params, base, circuit):
    w = _S["absent"]
    try:
        G = d.grad(w, **params)
    except Exception as err:
        report(ctx, "absent-symbol-empty-sum", failure="exception",
               exception=type(err).__name__, message=str(err)[:300], **base)
        return
    if is_empty_sum(G, d):
        ctx.ok("absent-symbol-empty-sum")
        return
    zero = None
    try:
        flat, _ = evaluate(G, circuit, base["mode"] == "mixed")
        zero = flat is None or bool(numpy.all(sym.numeric_many(
            flat, sym.random_points(random.Random(0),
                                    sym.diagram_symbols(d), n=1))[0] == 0))
    except Exception:
        pass
    report(ctx, "absent-symbol-empty-sum", failure="not-the-empty-sum",
           gradient=safe_repr(G, 300), top_level_class=clsname(d),
           gradient_evaluates_to_zero=zero, **base)


def take_gradient(ctx, d, x, mode, params, base):
    """ Returns the gradient, or None after a refusal / failure. """
    allowed = refusal_expected(d, x, mode)
    try:
        G = d.grad(x, **params)
    except NotImplementedError as err:
        if allowed:
            ctx.refuse("NotImplementedError:" + "+".join(sorted(allowed)))
            ctx.ok("refusal-warranted")
        else:
            report(ctx, "refusal-warranted", failure="unwarranted-refusal",
                   exception="NotImplementedError", **base)
        return None
    except Exception as err:
        report(ctx, "grad-returns", failure="exception",
               exception=type(err).__name__, message=str(err)[:300], **base)
        return None
    ctx.ok("grad-returns")
    return G


# --------------------------------------------------------------------------
# the case
# --------------------------------------------------------------------------
def run_case(rng, ctx):
    arm = ARMS[(ctx.index + 3 * ctx.shard) % len(ARMS)]
    ctx.count("arm:" + arm)
    if arm.startswith("tensor") or arm == "jacobian-tensor":
        pool = _S["real"]
    else:
        pool = rng.choice([_S["complex"], _S["complex"], _S["real"]])
    syms = rng.sample(pool, rng.choice([1, 2, 2, 3]))
    x = syms[0]
    reached = False
    if arm in ("circuit-pure", "circuit-mixed", "classical", "generic",
               "circuit-sum"):
        reached = circuit_case(ctx, rng, arm, syms, x)
    elif arm in ("tensor", "tensor-bubble", "tensor-sum"):
        reached = tensor_case(ctx, rng, arm, syms, x)
    elif arm.startswith("jacobian"):
        reached = jacobian_case(ctx, rng, arm, syms, x)
    else:
        zx_info(ctx, rng, syms, x)
    if reached:
        ctx.count("reached:" + arm)


def circuit_case(ctx, rng, arm, syms, x):
    mode = {"circuit-pure": "pure", "circuit-mixed": "mixed"}.get(
        arm, rng.choice(["pure", "mixed"]))
    if arm == "classical":
        d = gen_classical(rng, syms, x)
        mode = "mixed" if rng.random() < 0.8 else "pure"
    elif arm == "generic":
        d = gen_generic(rng, syms, x)
    elif arm == "circuit-sum":
        first = gen_circuit(rng, syms, x, mode)
        terms = [first]
        for _ in range(rng.randint(1, 2)):
            for attempt in range(30):
                other = gen_circuit(rng, syms, x, mode)
                if (other.dom, other.cod) == (first.dom, first.cod):
                    terms.append(other)
                    break
        d = terms[0]
        for t in terms[1:]:
            d = d + t
        if len(terms) == 1:
            d = d + terms[0]
    else:
        d = gen_circuit(rng, syms, x, mode)
    if x not in sym.diagram_symbols(d):
        ctx.count("generated-without-the-variable")
        return False
    reached = False
    modes = [mode]
    tried_other = False
    while modes:
        mode = modes.pop(0)
        params = {"mixed": False} if mode == "pure" else {}
        mixed = mode == "mixed"
        if mode == "pure" and d.is_mixed:
            ctx.count("pure-gradient-of-a-mixed-circuit-skipped")
            continue
        base = dict(arm=arm, mode=mode, var=str(x), diagram=safe_repr(d, 700),
                    var_classes=var_classes(d, x))
        check_absent(ctx, d, params, base, True)
        G = take_gradient(ctx, d, x, mode, params, base)
        if G is None:
            if mode == "mixed" and not d.is_mixed:
                modes.append("pure")          # still check the case in pure mode
            continue
        width = max([len(d.dom)] + [len(l) + len(b.cod) + len(r)
                                    for l, b, r in getattr(d, "layers", [])]
                    ) if hasattr(d, "layers") else 9
        if not tried_other and not d.is_mixed and arm != "classical"\
                and width <= 2 and len(getattr(d, "boxes", [])) <= 6:
            # histories: the SAME circuit object is differentiated in the
            # other mode as well (pure after mixed, mixed after pure)
            tried_other = True
            other = "pure" if mode == "mixed" else "mixed"
            if other not in modes:
                modes.append(other)
                ctx.count("both-gradient-modes-on-one-object")
        if compare_gradient(ctx, rng, d, x, G, True, mixed, base):
            reached = True
            ctx.mark("{}|{}|{}|{}".format(arm, mode, x, base["diagram"]))
            if ctx.index < 10:
                ctx.sample(arm=arm, mode=mode, var=str(x), diagram=base["diagram"],
                           gradient_terms=len(getattr(G, "terms", [G])))
    return reached


def tensor_case(ctx, rng, arm, syms, x):
    frozen = None
    extra = {}
    if arm == "tensor":
        d = gen_tensor(rng, syms, x)
        if rng.random() < 0.2:
            from discopy import tensor
            from discopy.tensor import Dim
            a, b = rng.choice([1, 2, 3]), rng.choice([2, 3])
            d = tensor.Box("f", Dim(a), Dim(b), [
                poly_entry(rng, x if i % 2 == 0 else rng.choice(syms), syms)
                for i in range(a * b)])
    elif arm == "tensor-bubble":
        for attempt in range(20):
            specs = chain_specs(rng, syms, x, rng.randint(1, 3),
                                rng.choice([2, 2, 3]))
            if has_bubble(specs) and specs_have_x(specs, x, only_inside=True):
                break
        else:
            ctx.count("no-bubble-generated")
            return False
        d = build_chain(specs)
        twin = sympy.Symbol(x.name + "_frozen", real=True)
        dead = []
        frozen = (build_chain(specs, {x: twin}, x, False, dead), twin)
        alone = len(specs) == 1
        extra = dict(bubble_composed=not alone,
                     bubble_inside_composite=composite_inside(specs),
                     skipped_bubbles_with_var=len(dead),
                     bubble_functions=[s[4] for s in specs if s[0] == "bubble"])
    else:
        length, dim = rng.randint(1, 2), rng.choice([2, 2, 3])
        terms = [build_chain(chain_specs(rng, syms, x, length, dim,
                                         bubbles=False))
                 for _ in range(rng.randint(2, 3))]
        d = terms[0] + terms[1]
        for t in terms[2:]:
            d = d + t
        extra = dict(top_level_sum=True)
    if x not in sym.diagram_symbols(d):
        ctx.count("generated-without-the-variable")
        return False
    base = dict(arm=arm, mode="tensor", var=str(x), diagram=safe_repr(d, 700),
                var_classes=var_classes(d, x), **extra)
    check_absent(ctx, d, {}, base, False)
    G = take_gradient(ctx, d, x, "tensor", {}, base)
    if G is None:
        return False
    base["gradient_terms"] = len(G.terms) if hasattr(G, "terms")\
        and isinstance(G.terms, list) else 1
    if compare_gradient(ctx, rng, d, x, G, False, False, base, frozen=frozen):
        ctx.mark("{}|{}|{}".format(arm, x, base["diagram"]))
        if ctx.index < 10:
            ctx.sample(arm=arm, var=str(x), diagram=base["diagram"])
        return True
    return False


def jacobian_case(ctx, rng, arm, syms, x):
    circuit = arm == "jacobian-circuit"
    mode = rng.choice(["mixed", "mixed", "pure"]) if circuit else "tensor"
    params = {"mixed": False} if mode == "pure" else {}
    if circuit:
        d = gen_circuit(rng, syms, x, mode)
        if mode == "pure" and d.is_mixed:
            return False
    else:
        d = gen_tensor(rng, syms, x)
    present = sym.sort_symbols(sym.diagram_symbols(d))
    variables = list(present)
    if rng.random() < 0.3:
        variables.append(_S["absent"])
    rng.shuffle(variables)
    variables = variables[:rng.randint(1, 3)]
    if rng.random() < 0.07:
        variables = []
    base = dict(arm=arm, mode=mode, variables=[str(v) for v in variables],
                diagram=safe_repr(d, 700),
                var_classes=sorted(set().union(
                    *[set(var_classes(d, v)) for v in variables]) if variables else []))
    allowed = set()
    for v in variables:
        allowed |= refusal_expected(d, v, mode)
    try:
        J = d.jacobian(variables, **params)
    except NotImplementedError:
        if allowed:
            ctx.refuse("NotImplementedError:" + "+".join(sorted(allowed)))
            ctx.ok("refusal-warranted")
        else:
            report(ctx, "refusal-warranted", failure="unwarranted-refusal",
                   exception="NotImplementedError", **base)
        return False
    except Exception as err:
        report(ctx, "jacobian-returns", failure="exception",
               exception=type(err).__name__, message=str(err)[:300], **base)
        return False
    ctx.ok("jacobian-returns")
    n = len(variables)
    # -- order of stacking, structurally ---------------------------------------
    if circuit:
        try:
            if n == 0:
                ok = hasattr(J, "terms") and not J.terms
            elif n == 1:
                ok = J == d.grad(variables[0], **params)
            else:
                from discopy.quantum.gates import Digits
                want = []
                for i, v in enumerate(variables):
                    g = d.grad(v, **params)
                    for t in (g.terms if hasattr(g, "terms")
                              and isinstance(g.terms, list) else [g]):
                        want.append(Digits(i, dim=n) @ t)
                ok = hasattr(J, "terms") and len(J.terms) == len(want)\
                    and all(a == b for a, b in zip(J.terms, want))
            expect(ctx, "jacobian-stacks-in-order", ok, failure="structure",
                   jacobian=lambda: safe_repr(J, 600), **base)
        except Exception as err:
            ctx.count("jacobian-structure-unavailable:" + type(err).__name__)
    if n == 0 or (circuit and mode == "pure" and n >= 2):
        return False
    # -- semantically -------------------------------------------------------------
    mixed = mode == "mixed"
    try:
        E, Evalue = evaluate(d, circuit, mixed)
    except Exception as err:
        ctx.refuse("symbolic-eval-of-original:" + type(err).__name__)
        return False
    if E is None:
        return False
    try:
        JE, _ = evaluate(J, circuit, mixed)
    except Exception as err:
        report(ctx, "jacobian-vs-sympy", failure="exception",
               exception=type(err).__name__, message=str(err)[:300],
               jacobian=safe_repr(J, 500), **base)
        return False
    syms_all = sym.diagram_symbols(d) | set(variables)
    envs = sym.random_points(rng, syms_all, n=2)
    under = Evalue.utensor if hasattr(Evalue, "utensor") else Evalue
    pre = int(numpy.prod([int(k) for k in under.dom] or [1]))
    try:
        ders = [sym.diff_numeric(E, v, envs, syms_all) for v in variables]
        expected = []
        for j in range(len(envs)):
            stack = numpy.stack(
                [ders[i][j].reshape(pre, -1) for i in range(n)], axis=1)
            expected.append(stack.flatten())
        if JE is None:
            JE = numpy.zeros(len(expected[0]), dtype=object)
        got = sym.numeric_many(JE, envs)
    except sym.Unresolved:
        ctx.count("sympy-derivative-unavailable")
        return False
    if any(g.shape != e.shape for g, e in zip(got, expected)):
        report(ctx, "jacobian-vs-sympy", failure="shape-mismatch",
               shapes=[list(got[0].shape), list(expected[0].shape)],
               jacobian=safe_repr(J, 500), **base)
        return True
    expect(ctx, "jacobian-vs-sympy",
           all(sym.close(g, e) for g, e in zip(got, expected)),
           failure="value-mismatch",
           max_diff=lambda: max(sym.max_diff(g, e) for g, e in zip(got, expected)),
           jacobian=lambda: safe_repr(J, 500), **base)
    ctx.mark("{}|{}|{}".format(arm, base["variables"], base["diagram"]))
    return True


def zx_info(ctx, rng, syms, x):
    """ Informational only: never raises a violation (DESIGN section 5). """
    from discopy.quantum import zx
    others = [s for s in syms if s != x]
    width = rng.randint(0, 2)
    d = zx.Id(width)
    for k in range(rng.randint(1, 4)):
        span = rng.randint(0, min(2, width))
        off = rng.randint(0, width - span)
        out = rng.randint(0, max(0, min(2, 2 - (width - span))))
        phase = phase_expr(rng, x, others, False) if k == 0 or rng.random() < 0.5\
            else rng.choice([0, 0.25, 0.5])
        d = d >> zx.Id(off) @ rng.choice([zx.Z, zx.X])(span, out, phase)\
            @ zx.Id(width - off - span)
        width = width - span + out
    if rng.random() < 0.4:
        d = d @ zx.scalar(phase_expr(rng, x, others, False))
    try:
        G = d.grad(x)
        E = sym.zx_eval(d, symmetric=True)
        GE = sym.zx_eval(G, symmetric=True)
        envs = sym.random_points(rng, sym.diagram_symbols(d) | {x}, n=2)
        expected = sym.diff_numeric(E, x, envs)
        got = sym.numeric_many(GE, envs)
        agree = all(sym.close(g, e) for g, e in zip(got, expected))
        ctx.count("zx-info:agrees-with-symmetric-convention" if agree
                  else "zx-info:differs-from-symmetric-convention")
    except Exception as err:
        ctx.count("zx-info:unavailable:" + type(err).__name__)
