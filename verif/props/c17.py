"""
C17 - export to and import from pyzx graphs preserve the ZX diagram.

Monitors
  export-matrix        pyzx's own to_matrix(preserve_scalar=True) of to_pyzx(d)
                       == harness interpretation of d (transposed: pyzx is
                       output x input), inputs/outputs in order
  export-structure     one vertex per boundary wire and per spider, phases doubled,
                       declared inputs/outputs disjoint and complete
  import-well-typed    from_pyzx(g) is a well-typed zx.Diagram with len(inputs)
                       input and len(outputs) output wires
  import-matrix        round trip: interpretation(from_pyzx(to_pyzx(d))) times the
                       product of d's scalar boxes == interpretation(d);
                       direct graphs: interpretation(from_pyzx(g)) == g.to_matrix().T
  malformed-refused    missing / shared boundary vertices => ValueError
"""
import numpy

from verif.instrument import safe_repr
from verif.models import zxsem
from verif.models.typing import well_typed

ID = "C17"
TECHNIQUE = ("runtime monitoring: pyzx's own tensor semantics and a harness-side "
             "ZX interpretation as two independent reference models around "
             "to_pyzx / from_pyzx")
RULE = ("case = random ZX diagram over Z/X spiders of arity 0-3 (dyadic and "
        "arbitrary phases), H (also twice in a row and on boundary wires), SWAP "
        "and scalars, generated with a harness-side edge set so that no two "
        "spiders are joined twice (simple underlying graph), <= 5 boundary "
        "wires; or a random simple pyzx graph built through the pyzx API with "
        "declared disjoint inputs/outputs; or a malformed graph.  Non-trivial = "
        ">= 2 spiders and >= 1 swap or Hadamard; distinct by diagram repr."
        "  Also: import leaves the graph unchanged, second import equal; first export edited in place, diagram exported again.")
SIZES = {"quick": (16, 400), "thorough": (16, 8000)}
TIMEOUT = {"quick": 900, "thorough": 7200}
COVER = {"discopy.quantum.zx:Diagram.to_pyzx": 0.9,
         "discopy.quantum.zx:Diagram.from_pyzx": 0.9,
         "discopy.quantum.zx:Diagram.from_pyzx.move": 0.6,
         "discopy.quantum.zx:Diagram.from_pyzx.make_wires_adjacent": 0.9,
         "discopy.quantum.zx:Diagram.from_pyzx.node2box": 0.6}
MIN_EVALS = {"quick": {"export-matrix": 3500, "import-matrix": 3800,
                       "malformed-refused": 700},
             "thorough": {"export-matrix": 70000}}
L1 = True
ASSUMPTIONS = [
    "the installed pyzx 0.10 is driven through an in-process adapter emulating "
    "the 0.6 API discopy was written against (list-valued callable "
    "inputs/outputs, float phases, edge_type == 0 for a missing edge)",
    "pyzx's to_matrix is trusted as pyzx's tensor semantics; the harness "
    "interpretation (models/zxsem.py) is the independent second opinion",
    "generated diagrams have a simple underlying graph (the statement's side "
    "condition); phases are compared modulo full turns with tolerance 1e-8"]

_ENV = {}


def move_reuses_placed_leg(monitor, witness):
    """
    from_pyzx's final loop calls scan.index(node), which returns the first leg
    of the spider even when that leg has already been placed, so a spider with
    two or more legs on the output boundary (or a through wire next to it) is
    wired in the wrong order.
    """
    return monitor == "import-matrix" and witness.get("kind") == "round-trip"\
        and witness.get("some_vertex_has_two_output_legs") is True\
        and witness.get("equal_up_to_output_permutation") is True


def hadamard_lost_on_moved_wire(monitor, witness):
    """
    from_pyzx.move() writes the spider being built (closure variable `node`)
    into `scan` instead of the wire it moved, so the Hadamard flag of a moved
    input wire is looked up on a non-existent edge and dropped.
    """
    return monitor == "import-matrix" and witness.get("kind") == "round-trip"\
        and witness.get("hadamard_edge_on_non_first_input_leg") is True


PREDICATES = {"move_reuses_placed_leg": move_reuses_placed_leg,
              "hadamard_lost_on_moved_wire": hadamard_lost_on_moved_wire}


def setup(ctx):
    from verif.models import pyzx_adapter
    _ENV["Graph"] = pyzx_adapter.install()
    import pyzx
    from discopy.quantum import zx
    _ENV["pyzx"], _ENV["zx"] = pyzx, zx


def phase(rng):
    return rng.choice([0, 0, 0.25, 0.5, 0.75, -0.25, 0.125, 0.3, 1.1, -0.7, 0.0417])


def rand_simple_zx(rng, n_in, n_boxes):
    """ Random zx diagram whose spiders are pairwise joined at most once. """
    zx = _ENV["zx"]
    d = zx.Id(n_in)
    scan = [("in", i) for i in range(n_in)]        # who feeds each open wire
    joined, spiders, features = set(), 0, set()
    for _ in range(n_boxes):
        width = len(scan)
        r = rng.random()
        if r < .12:
            # complex, float and INT scalars (0, 1 and powers of two included)
            value = complex(round(rng.uniform(-1, 1), 2), round(rng.uniform(-1, 1), 2))\
                if rng.random() < .6 else rng.choice(
                    [0, 1, 2, 4, 3, -1, 8, 0.0, 0.5, 2.0, -0.25])
            box, off = zx.scalar(value), rng.randint(0, width)
            new = []
            span = 0
            features.add("scalar")
        elif r < .3 and width >= 1:
            off, span, box = rng.randrange(width), 1, zx.H
            new = [scan[off]]
            features.add("H")
        elif r < .45 and width >= 2:
            off, span, box = rng.randrange(width - 1), 2, zx.SWAP
            new = [scan[off + 1], scan[off]]
            features.add("swap")
        else:
            off = rng.randint(0, width)
            span = rng.randint(0, min(3, width - off))
            feeders = scan[off:off + span]
            # a simple graph: distinct feeding spiders, none already joined... a
            # boundary feeds exactly one wire, so only spiders need the test
            while span and len({f for f in feeders if f[0] == "s"})\
                    != len([f for f in feeders if f[0] == "s"]):
                span -= 1
                feeders = scan[off:off + span]
            n_out = rng.choice([0, 1, 1, 2, 2, 3])
            if width - span + n_out > 6:
                n_out = min(n_out, 1)
            cls = zx.Z if rng.random() < .5 else zx.X
            box = cls(span, n_out, phase(rng))
            me = ("s", spiders)
            spiders += 1
            new = [me] * n_out
        d = d >> zx.Id(off) @ box @ zx.Id(width - off - span)
        scan[off:off + span] = new
    # outputs: a spider may not feed the boundary twice?  it may: two boundary
    # vertices are two different neighbours, the graph stays simple.
    return d, spiders, features


def structure_facts(d):
    """ Facts about d used to attribute import failures to a mechanism. """
    scan = [("in", i, False) for i in range(len(d.dom))]
    spiders = 0
    had_on_later_leg = False
    for box, off in zip(d.boxes, d.offsets):
        name = type(box).__name__
        if name == "Swap":
            scan[off], scan[off + 1] = scan[off + 1], scan[off]
        elif name in ("Z", "X"):
            legs = scan[off:off + len(box.dom)]
            if any(h for _, _, h in legs[1:]):
                had_on_later_leg = True
            scan[off:off + len(box.dom)] = [("s", spiders, False)] * len(box.cod)
            spiders += 1
        elif name == "Had" or box.name == "H":
            kind, k, h = scan[off]
            scan[off] = (kind, k, not h)
    feeders = [(kind, k) for kind, k, _ in scan]
    two_legs = any(feeders.count(f) >= 2 for f in feeders if f[0] == "s")
    return {"some_vertex_has_two_output_legs": two_legs,
            "hadamard_edge_on_non_first_input_leg": had_on_later_leg}


def permutation_matches(a, b, n_out):
    """ a == b up to a permutation of the output wires (columns of a). """
    import itertools
    if a.shape != b.shape or n_out > 5:
        return None
    rows = a.shape[0]
    ta = a.reshape([rows] + [2] * n_out)
    for perm in itertools.permutations(range(n_out)):
        moved = numpy.transpose(ta, [0] + [1 + p for p in perm]).reshape(rows, -1)
        if numpy.allclose(moved, b, atol=1e-8):
            return True
    return False


def run_case(rng, ctx):
    kind = ctx.index % 7
    if kind == 5:
        return direct_graph_case(rng, ctx)
    if kind == 6:
        return malformed_case(rng, ctx)
    zx, pyzx = _ENV["zx"], _ENV["pyzx"]
    d, spiders, features = rand_simple_zx(rng, rng.randint(0, 3), rng.randint(1, 7))
    if len(d.cod) > 5:
        return
    witness = dict(diagram=lambda: safe_repr(d, 2500), offsets=d.offsets)
    expected = zxsem.evaluate(d)
    graph = d.to_pyzx()
    inputs, outputs = list(graph.inputs), list(graph.outputs)
    ctx.expect("export-structure",
               len(inputs) == len(d.dom) and len(outputs) == len(d.cod)
               and not set(inputs) & set(outputs)
               and len(list(graph.vertices())) == len(inputs) + len(outputs) + spiders
               and all(graph.type(v) == pyzx.VertexType.BOUNDARY
                       for v in inputs + outputs),
               inputs=inputs, outputs=outputs,
               vertices=lambda: len(list(graph.vertices())), **witness)
    matrix = graph.to_matrix(preserve_scalar=True)
    ctx.expect("export-matrix", matrix.shape == expected.T.shape
               and numpy.allclose(matrix, expected.T, atol=1e-8),
               pyzx_matrix=lambda: numpy.round(matrix, 4).tolist(),
               expected=lambda: numpy.round(expected.T, 4).tolist(), **witness)
    before = repr(describe(graph))
    try:
        back = zx.Diagram.from_pyzx(graph)
    except Exception as err:
        ctx.fail("import-well-typed", exception=type(err).__name__,
                 message=str(err)[:300], **witness)
        return
    import_history(ctx, graph, before, back, witness)
    export_history(rng, ctx, d, graph, expected, witness)
    ok, why = well_typed(back)
    good = ok and len(back.dom) == len(d.dom) and len(back.cod) == len(d.cod)\
        and isinstance(back, zx.Diagram)
    ctx.expect("import-well-typed", good, reason=why,
               imported=lambda: safe_repr(back, 2000), **witness)
    if good:
        got = zxsem.evaluate(back) * zxsem.scalar_product(d)
        same = got.shape == expected.shape and numpy.allclose(got, expected, atol=1e-8)
        extra = {}
        if not same:
            extra = structure_facts(d)
            extra["equal_up_to_output_permutation"] = permutation_matches(
                got, expected, len(d.cod))
        ctx.expect("import-matrix", same, kind="round-trip",
                   imported=lambda: safe_repr(back, 2000), **dict(witness, **extra))
    if spiders >= 2 and features & {"swap", "H"}:
        ctx.mark(safe_repr(d, 1500))
    if ctx.index < 20:
        ctx.sample(diagram=safe_repr(d, 400), spiders=spiders,
                   features=sorted(features))


def import_history(ctx, graph, before, back, witness):
    """
    Histories on one graph object: import leaves the graph it was given alone
    (same vertices, edges, inputs and outputs in the same order), and importing
    the same object again gives the same diagram.
    """
    zx = _ENV["zx"]
    after = repr(describe(graph))
    ctx.expect("import-matrix", after == before, kind="argument-unchanged",
               reason="from_pyzx changed the graph it was given",
               graph_before=before[:1500], graph_after=after[:1500], **witness)
    try:
        again = zx.Diagram.from_pyzx(graph)
        ctx.expect("import-matrix", again == back, kind="second-import",
                   reason="importing the same graph object twice gives two "
                   "different diagrams", first=lambda: safe_repr(back, 1500),
                   second=lambda: safe_repr(again, 1500), **witness)
    except Exception as err:
        ctx.fail("import-well-typed", exception=type(err).__name__,
                 message=str(err)[:300], kind="second import of the same graph",
                 **witness)


def export_history(rng, ctx, d, graph, expected, witness):
    """
    Histories on one diagram object: its first export is edited in place by the
    caller (pyzx rewrites graphs in place); the diagram did not change, so a
    second export must still denote it.
    """
    pyzx = _ENV["pyzx"]
    try:
        spiders = [v for v in graph.vertices()
                   if graph.type(v) != pyzx.VertexType.BOUNDARY]
        if spiders:
            v = spiders[rng.randrange(len(spiders))]
            graph.set_phase(v, graph.phase(v) + 1)
        extra = graph.add_vertex(pyzx.VertexType.Z, phase=0.5)
        graph.scalar.add_phase(0.25)
        del extra
    except Exception as err:
        ctx.count("export_history_edit_raised:" + type(err).__name__)
    again = d.to_pyzx()
    matrix = again.to_matrix(preserve_scalar=True)
    ctx.expect("export-matrix", again is not graph
               and matrix.shape == expected.T.shape
               and numpy.allclose(matrix, expected.T, atol=1e-8),
               history="first export edited in place, diagram exported again",
               pyzx_matrix=lambda: numpy.round(matrix, 4).tolist(),
               expected=lambda: numpy.round(expected.T, 4).tolist(), **witness)
    ctx.count("export_histories")


def build_direct_graph(rng):
    """ A random simple pyzx graph built through the pyzx API. """
    pyzx = _ENV["pyzx"]
    graph = pyzx.Graph()
    n_in, n_out, n_sp = rng.randint(0, 3), rng.randint(0, 3), rng.randint(1, 5)
    roles = ["in"] * n_in + ["spider"] * n_sp + ["out"] * n_out
    if rng.random() < .5:
        rng.shuffle(roles)      # vertex numbers need not follow the flow
    ins, spiders, outs = [], [], []
    for role in roles:
        if role == "spider":
            ty = pyzx.VertexType.Z if rng.random() < .5 else pyzx.VertexType.X
            p = rng.choice([None, 0.5, 1, 1.5, 0.25, 0.6])
            spiders.append(graph.add_vertex(ty, phase=p))
        else:
            (ins if role == "in" else outs).append(
                graph.add_vertex(pyzx.VertexType.BOUNDARY))
    for v in ins + outs:
        graph.add_edge((v, rng.choice(spiders)), rng.choice(
            [pyzx.EdgeType.SIMPLE, pyzx.EdgeType.SIMPLE, pyzx.EdgeType.HADAMARD]))
    for i, a in enumerate(spiders):
        for b in spiders[i + 1:]:
            if rng.random() < .45:
                graph.add_edge((a, b), rng.choice(
                    [pyzx.EdgeType.SIMPLE, pyzx.EdgeType.HADAMARD]))
    graph.inputs.extend(ins)
    graph.outputs.extend(outs)
    return graph, ins, outs, spiders


def describe(graph):
    return {"vertices": [(v, str(graph.type(v)), str(graph.phase(v)))
                         for v in graph.vertices()],
            "edges": [(a, b, str(graph.edge_type((a, b)))) for a, b in graph.edges()],
            "inputs": list(graph.inputs), "outputs": list(graph.outputs)}


def direct_graph_case(rng, ctx):
    zx = _ENV["zx"]
    graph, ins, outs, spiders = build_direct_graph(rng)
    expected = graph.to_matrix(preserve_scalar=True).T
    witness = dict(graph=lambda: describe(graph))
    before = repr(describe(graph))
    try:
        back = zx.Diagram.from_pyzx(graph)
    except Exception as err:
        ctx.fail("import-well-typed", exception=type(err).__name__,
                 message=str(err)[:300], **witness)
        return
    import_history(ctx, graph, before, back, witness)
    ok, why = well_typed(back)
    good = ok and len(back.dom) == len(ins) and len(back.cod) == len(outs)
    ctx.expect("import-well-typed", good, reason=why,
               imported=lambda: safe_repr(back, 2000), **witness)
    if good:
        got = zxsem.evaluate(back)
        ctx.expect("import-matrix", got.shape == expected.shape
                   and numpy.allclose(got, expected, atol=1e-8), kind="direct-graph",
                   imported=lambda: safe_repr(back, 2000),
                   boundary_legs_per_spider=lambda: sorted(
                       sum(1 for b in ins + outs if s in graph.neighbors(b))
                       for s in spiders),
                   hadamard_edges=lambda: sum(
                       1 for e in graph.edges() if str(graph.edge_type(e)).endswith("HADAMARD")),
                   **witness)
        if len(spiders) >= 2:
            ctx.mark(repr(describe(graph)))


def malformed_case(rng, ctx):
    zx, pyzx = _ENV["zx"], _ENV["pyzx"]
    graph, ins, outs, spiders = build_direct_graph(rng)
    kind = rng.choice(["missing-input", "missing-output", "shared", "undeclared"])
    if kind == "missing-input" and ins:
        graph.inputs.remove(rng.choice(ins))
    elif kind == "missing-output" and outs:
        graph.outputs.remove(rng.choice(outs))
    elif kind == "shared" and (ins or outs):
        if ins:
            graph.outputs.append(ins[0])
        else:
            graph.inputs.append(outs[0])
    else:
        kind = "undeclared"
        v = graph.add_vertex(pyzx.VertexType.BOUNDARY)
        graph.add_edge((v, spiders[0]))
    try:
        value = zx.Diagram.from_pyzx(graph)
        ctx.fail("malformed-refused", kind=kind, graph=describe(graph),
                 returned=safe_repr(value, 600))
    except ValueError:
        ctx.ok("malformed-refused")
    except Exception as err:
        ctx.fail("malformed-refused", kind=kind, graph=describe(graph),
                 raised=type(err).__name__, message=str(err)[:200])
