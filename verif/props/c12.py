"""
C12 - mixed evaluation agrees with pure evaluation and the Born rule.

Oracle: verif.models.cq_sim (density operators on the whole register, Kraus
terms per box kind, Kronecker embedding) plus the closed forms of the
statement (doubling, |amplitude|^2, partial trace, conjugate transpose).

Monitors
  evaluation-returns              eval / get_counts / measure / is_mixed /
                                  init_and_discard returned a value (no refusal
                                  is allowed inside the quantifier)
  doubling                        pure quantum circuit: eval(mixed=True).array
                                  == conj(U) (x) U in CQMap axis order, U = eval()
  superoperator-equals-cq_sim     eval(mixed=True).array == cq_sim, entry-wise
  result-type                     dom/cod/shape of the CQMap are the CQ types of
                                  the circuit's dom/cod
  default-route                   eval() is a CQMap when the circuit is mixed
                                  (a mixed box, or bits next to qubits), a
                                  Tensor when it is purely quantum and pure;
                                  is_mixed says the same
  dagger-evaluates-to-adjoint     c.dagger().eval(mixed=True) is the adjoint
                                  (exchange inputs/outputs, conjugate)
  discard-is-marginal             (c >> Discard on some outputs) == partial
                                  trace / marginal of c's evaluation
  adjoint-measure-encode          Encode(v) and Measure(v).dagger() evaluate to
                                  the adjoint of Measure(v); Encode(v).dagger()
                                  to Measure(v): all 8 variants, n = 0, 1, 2
  adjoint-discard-mixedstate      the same for MixedState(T) / Discard(T), T any
                                  mix of bits and qubits; Discard(T) is ones (x) id
  born-rule                       state >> Measure(v) gives |amplitude|^2 (all
                                  variants; old bits are overridden)
  born-marginal                   measuring some qubits and discarding the rest
                                  gives the marginal of |amplitude|^2
  born-dephasing                  non-destructive measurement, bits discarded:
                                  the state loses exactly its coherences
  trace-preserving                CPTP fragment: tracing every output of the
                                  evaluation gives the trace of the input
  probabilities-sum-to-1          CPTP fragment: real, non-negative, total 1
  distribution-equals-cq_sim      CPTP fragment: init_and_discard evaluation
                                  == cq_sim's distribution
  init-and-discard                c.init_and_discard() evaluates to "prepare 0,
                                  run, discard the qubits"
  get_counts-equals-evaluation    CPTP fragment
  measure-equals-evaluation       CPTP fragment (pure quantum circuits: the
                                  Born probabilities of the output qubits)
"""
import numpy as np

from verif.instrument import safe_repr
from verif.models import cq_sim

ID = "C12"
RULE = ("case kind by index mod 8: 0-3 a random mixed circuit on <= 4 wires "
        "(interleaved bits/qubits), <= 8 boxes drawn from every box kind "
        "(gates incl. generic non-symmetric matrices, daggers, Controlled, "
        "rotations; Ket/Bra/Bits/Bits^dagger; the 8 Measure/Encode variants "
        "with n = 1, 2; Discard/MixedState on mixed types; Copy/Match/"
        "stochastic and generic classical gates and daggers; pure/mixed "
        "scalars, sqrt; swaps of all kinds; cups/caps), boxes placed where "
        "their domain occurs or after routing wires with swaps; 4-5 a circuit "
        "of the trace-preserving fragment (Ket, Bits, Encode(), unitaries, "
        "Measure variants, Discard, Copy, stochastic classical gates, swaps); "
        "6 a pure quantum circuit; 7 single Measure/Encode/Discard/MixedState "
        "variants and Born-rule set-ups on a random state.  Non-trivial = at "
        "least 3 boxes; distinct by the repr of the circuit(s)."
        "  Also: wire-less classical gates; the batch form pure.eval(circuit).")
SIZES = {"quick": (16, 48), "thorough": (64, 224)}
TIMEOUT = {"quick": 600, "thorough": 5400}
COVER = {
    "discopy.quantum.cqmap:Functor._ob": 0.8,
    "discopy.quantum.cqmap:Functor._ar": 0.8,
    "discopy.quantum.cqmap:CQMap.tensor": 0.9,
    "discopy.quantum.cqmap:CQMap.swap": 0.9,
    "discopy.quantum.cqmap:CQMap.measure": 0.9,
    "discopy.quantum.cqmap:CQMap.discard": 0.9,
    "discopy.quantum.cqmap:CQMap.pure": 0.9,
    "discopy.quantum.circuit:Circuit.eval": 0.4,
    "discopy.quantum.circuit:Circuit.get_counts": 0.7,
    "discopy.quantum.circuit:Circuit.measure": 0.9,
    "discopy.quantum.circuit:Circuit.is_mixed": 0.9,
    "discopy.quantum.circuit:Circuit.init_and_discard": 0.9,
}
MIN_EVALS = {     # ~85 % of what the tree reaches (quick 768, thorough 14336 cases)
    "quick": {"superoperator-equals-cq_sim": 650, "doubling": 80,
              "dagger-evaluates-to-adjoint": 320, "discard-is-marginal": 290,
              "adjoint-measure-encode": 240, "adjoint-discard-mixedstate": 320,
              "born-rule": 400, "born-marginal": 50, "born-dephasing": 30,
              "trace-preserving": 160, "probabilities-sum-to-1": 160,
              "distribution-equals-cq_sim": 160,
              "get_counts-equals-evaluation": 240,
              "measure-equals-evaluation": 150, "default-route": 550},
    "thorough": {"superoperator-equals-cq_sim": 12000, "doubling": 1500,
                 "dagger-evaluates-to-adjoint": 6000,
                 "discard-is-marginal": 5500,
                 "adjoint-measure-encode": 4500,
                 "adjoint-discard-mixedstate": 6000, "born-rule": 7500,
                 "born-marginal": 1400, "born-dephasing": 700,
                 "trace-preserving": 3000, "probabilities-sum-to-1": 3000,
                 "distribution-equals-cq_sim": 3000,
                 "get_counts-equals-evaluation": 4500,
                 "measure-equals-evaluation": 2800, "default-route": 10000}}
L1 = False     # CQMap.tensor builds ~10^3 small diagrams per evaluation; the hook
               # would take 40 % of the time of a check whose subject is numeric
ASSUMPTIONS = [
    "gate matrices and classical-gate tables are read from box.array (their "
    "correctness is C11's subject); every other channel is written by hand in "
    "cq_sim from the box docstrings and the statement (Encode/MixedState are "
    "the Hilbert-Schmidt adjoints of Measure/Discard, hence unnormalised)",
    "all wires have dimension 2 (bit, qubit); the only formal sums generated "
    "are a pure circuit plus a mixed circuit of the same type (both orders)",
    "comparisons: |got - expected| <= 1e-9 * max(1, max|expected|) entry-wise",
    "the trace-preserving fragment is Ket, Bits, Encode() (a controlled "
    "preparation), unitary gates, the four Measure variants, Discard, Copy, "
    "row-stochastic classical gates and swaps; Bra, Bits^dagger, Match, "
    "MixedState, Encode(constructive=False / reset_bits=True), scalars and "
    "daggers of stochastic gates are not trace-preserving and are left out",
    "default-route judges only unambiguous circuits: surely mixed (a mixed "
    "box, or a bit and a qubit side by side) or surely pure quantum (qubits "
    "only, no mixed box)"]
TECHNIQUE = ("runtime monitoring: independent density-operator simulator "
             "(Kraus terms, Kronecker embedding) beside every evaluation, "
             "plus closed forms (doubling, Born, partial trace, adjoint)")

MAXW = 4
BIT, QUBIT = cq_sim.BIT, cq_sim.QUBIT
_Q = {}          # discopy names, filled by setup()


def setup(ctx):
    from discopy.quantum import circuit, gates, cqmap
    from discopy import tensor
    _Q.update(circuit=circuit, gates=gates, cqmap=cqmap, tensor=tensor,
              bit=circuit.bit, qubit=circuit.qubit, Id=circuit.Id)
    complaints = cq_sim.self_check()
    if complaints:      # the model contradicts itself: harness bug, be loud
        raise AssertionError("cq_sim self-check: {}".format(complaints))


# -- small helpers ---------------------------------------------------------------

def ty(kinds):
    out = _Q["circuit"].Ty()
    for k in kinds:
        out = out @ (_Q["bit"] if k == BIT else _Q["qubit"])
    return out


def close(got, expected):
    got, expected = np.asarray(got), np.asarray(expected)
    if got.size != expected.size:
        return False
    got = got.reshape(-1).astype(complex)
    expected = expected.reshape(-1).astype(complex)
    if not np.all(np.isfinite(got)):
        return False
    scale = max(1.0, float(np.abs(expected).max(initial=0)))
    return bool(np.abs(got - expected).max(initial=0) <= 1e-9 * scale)


def worst(got, expected):
    """ Witness of a numeric disagreement: position and the two values. """
    got, expected = np.asarray(got), np.asarray(expected)
    if got.size != expected.size:
        return {"got_shape": list(got.shape),
                "expected_shape": list(expected.shape)}
    diff = np.abs(got.reshape(-1) - expected.reshape(-1))
    k = int(diff.argmax()) if diff.size else 0
    return {"flat_index": k, "got": complex(got.reshape(-1)[k]),
            "expected": complex(expected.reshape(-1)[k]),
            "entries_off": int((diff > 1e-9).sum()), "entries": int(diff.size)}


def label(box):
    """ Kind of a box, with the flags that select its interpretation. """
    name = type(box).__name__
    if name == "Measure":
        return "Measure(n={}, destructive={}, override_bits={})".format(
            box.n_qubits, box.destructive, box.override_bits)
    if name == "Encode":
        return "Encode(n={}, constructive={}, reset_bits={})".format(
            box.n_bits, box.constructive, box.reset_bits)
    if name in ("Discard", "MixedState"):
        return "{}({})".format(name, "@".join(
            cq_sim.kinds(box.dom if name == "Discard" else box.cod)))
    if name == "Swap":
        return "Swap({},{})".format(box.left, box.right)
    if name == "Scalar":
        return "Scalar(mixed)" if box.is_mixed else "Scalar(pure)"
    if name == "Controlled":
        return "Controlled({})".format(type(box.controlled).__name__)
    if getattr(box, "is_dagger", False):
        return name + "^dagger"
    return name


def info_of(circuit):
    """ What every witness carries about the circuit (predicates read it). """
    boxes = circuit.boxes
    labels = [label(b) for b in boxes]
    scans = scans_of(circuit)
    return {
        "circuit": safe_repr(circuit, 1200),
        "dom": cq_sim.kinds(circuit.dom), "cod": cq_sim.kinds(circuit.cod),
        "kinds": labels,
        "has_override_or_reset": any(
            "override_bits=True" in s or "reset_bits=True" in s
            for s in labels),
        "classical_only": bool(boxes) and all(
            k == BIT for scan in scans for k in scan) and not any(
            b.is_mixed for b in boxes) and not any(
            lab.startswith(("Scalar", "Sqrt")) for lab in labels),
        "has_stochastic_gate": any(
            lab.startswith("ClassicalGate") for lab in labels),
        # bits occur, but no mixed box and never a bit beside a qubit:
        # exactly the circuits with bits for which is_mixed is False
        "bits_but_not_mixed": expected_mixed(circuit) is None,
    }


def lib(ctx, call, fn, info, **more):
    """ A library call inside the quantifier: an exception is a violation. """
    try:
        value = fn()
    except Exception as err:
        import traceback
        frames = traceback.extract_tb(err.__traceback__)
        where = ["{}:{}".format(f.name, f.lineno) for f in frames
                 if "/discopy/" in f.filename][-4:]
        ctx.fail("evaluation-returns", call=call,
                 exception=type(err).__name__, message=str(err)[:300],
                 where=where, **dict(info, **more))
        return False, None
    ctx.ok("evaluation-returns")
    return True, value


def scans_of(circuit):
    """ The wire kinds before the first box and after every box. """
    scans = [cq_sim.kinds(circuit.dom)]
    kinds = list(scans[0])
    for box, off in zip(circuit.boxes, circuit.offsets):
        kinds = kinds[:off] + cq_sim.kinds(box.cod)\
            + kinds[off + len(box.dom):]
        scans.append(kinds)
    return scans


def expected_mixed(circuit):
    """ True / False / None (= not judged). """
    if any(b.is_mixed for b in circuit.boxes):
        return True
    scans = scans_of(circuit)
    if any(BIT in s and QUBIT in s for s in scans):
        return True
    if all(k == QUBIT for s in scans for k in s):
        return False
    return None


# -- generators ------------------------------------------------------------------

def rand_complex(rng, radius=1.0):
    return complex(round(rng.uniform(-radius, radius), 3),
                   round(rng.uniform(-radius, radius), 3))


def rand_phase(rng):
    if rng.random() < .5:
        return rng.choice([0.25, -0.5, 0.125, 1.0, 0.3, -1.7, 0.7853, 0, 0.5])
    return round(rng.uniform(-2, 2), 3)


def rand_matrix(rng, n):
    size = 2 ** n
    return np.array([[complex(rng.gauss(0, 1), rng.gauss(0, 1))
                      for _ in range(size)] for _ in range(size)])


def generic_gate(rng, n):
    """ A non-symmetric, non-unitary matrix of spectral norm 1. """
    m = rand_matrix(rng, n)
    m = m / np.linalg.norm(m, 2)
    return _Q["gates"].QuantumGate(
        "G{:03d}".format(rng.randrange(1000)), n, m.reshape(-1))


def unitary_gate(rng, n):
    q, r = np.linalg.qr(rand_matrix(rng, n))
    return _Q["gates"].QuantumGate(
        "U{:03d}".format(rng.randrange(1000)), n, q.reshape(-1))


def stochastic_gate(rng, n_in, n_out):
    rows = []
    for _ in range(2 ** n_in):
        if rng.random() < .3:        # deterministic row
            row = [0] * 2 ** n_out
            row[rng.randrange(2 ** n_out)] = 1
        else:
            weights = [rng.randint(0, 5) for _ in range(2 ** n_out)]
            if not sum(weights):
                weights[0] = 1
            row = [w / sum(weights) for w in weights]
        rows += row
    return _Q["gates"].ClassicalGate(
        "f{:03d}".format(rng.randrange(1000)), n_in, n_out, rows)


def generic_classical_gate(rng, n_in, n_out):
    data = [rand_complex(rng) if rng.random() < .5
            else round(rng.uniform(-1, 1), 3)
            for _ in range(2 ** (n_in + n_out))]
    return _Q["gates"].ClassicalGate(
        "g{:03d}".format(rng.randrange(1000)), n_in, n_out, data)


def named_unitary(rng, n):
    g = _Q["gates"]
    if n == 1:
        return rng.choice([
            g.H, g.S, g.T, g.X, g.Y, g.Z, g.S.dagger(), g.T.dagger(),
            g.Y.dagger(), g.Rx(rand_phase(rng)), g.Ry(rand_phase(rng)),
            g.Rz(rand_phase(rng))])
    return rng.choice([
        g.CX, g.CZ, g.SWAP, g.CRz(rand_phase(rng)), g.CRx(rand_phase(rng)),
        g.CU1(rand_phase(rng)), g.Controlled(g.Z), g.Controlled(g.H),
        g.Controlled(g.Y), g.Controlled(g.Rz(rand_phase(rng))),
        g.Controlled(g.Rx(rand_phase(rng))), g.CX.dagger(),
        g.CRz(rand_phase(rng)).dagger()])


def rand_kinds(rng, n, p_bit=.45):
    return [BIT if rng.random() < p_bit else QUBIT for _ in range(n)]


def rand_bits(rng, n):
    return [rng.randint(0, 1) for _ in range(n)]


def pick_box(rng, scan, fragment):
    """
    One random box (or small fragment) of the requested family.  `scan` lets
    Discard / swaps choose a type that is actually there.
    """
    c, g = _Q["circuit"], _Q["gates"]
    if fragment == "bits":
        kind = rng.choice(["bits", "copy", "stochastic", "stochastic",
                           "swapbb"])
    elif fragment == "cptp":
        kind = rng.choice([
            "unitary", "unitary", "unitary", "ket", "bits", "measure",
            "measure", "measure", "discard", "copy", "stochastic",
            "stochastic", "swap", "encode0"])
    elif fragment == "pure":
        kind = rng.choice([
            "unitary", "unitary", "unitary", "generic", "generic", "ket",
            "bra", "scalar", "sqrt", "swapqq", "cupq"])
    else:
        kind = rng.choice([
            "unitary", "unitary", "generic", "generic", "ket", "bra", "bits",
            "bitsdag", "measure", "measure", "encode", "encode",
            "discard", "discard", "mixedstate", "copy", "match",
            "stochastic", "stochasticdag", "cgeneric", "scalar", "mscalar",
            "sqrt", "swap", "swap", "cup", "cap"])
    n12 = 1 if rng.random() < .65 else 2
    if kind == "unitary":
        return named_unitary(rng, n12) if rng.random() < .7\
            else unitary_gate(rng, n12)
    if kind == "generic":
        gate = generic_gate(rng, n12)
        return gate.dagger() if rng.random() < .4 else gate
    if kind == "ket":
        return g.Ket(*rand_bits(rng, n12))
    if kind == "bra":
        return g.Bra(*rand_bits(rng, n12))
    if kind == "bits":
        return g.Bits(*rand_bits(rng, n12))
    if kind == "bitsdag":
        return g.Bits(*rand_bits(rng, n12)).dagger()
    if kind == "measure":
        return c.Measure(n12, destructive=rng.random() < .5,
                         override_bits=rng.random() < .3)
    if kind == "encode":
        return c.Encode(n12, constructive=rng.random() < .5,
                        reset_bits=rng.random() < .3)
    if kind == "encode0":
        return c.Encode(n12)
    if kind == "discard":
        if scan and rng.random() < .8:
            n = rng.randint(1, min(3, len(scan)))
            off = rng.randint(0, len(scan) - n)
            return c.Discard(ty(scan[off:off + n]))
        return c.Discard(ty(rand_kinds(rng, rng.randint(0, 2))))
    if kind == "mixedstate":
        return c.MixedState(ty(rand_kinds(rng, rng.randint(0, 3))))
    if kind == "copy":
        return g.Copy()
    if kind == "match":
        return g.Match()
    if kind in ("stochastic", "stochasticdag"):
        n_in, n_out = rng.randint(0, 2), rng.randint(0, 2)
        if n_in + n_out == 0:
            n_out = 1
        gate = stochastic_gate(rng, n_in, n_out)
        return gate.dagger() if kind == "stochasticdag" else gate
    if kind == "cgeneric":
        # (also without any wire: a classical number, which the mixed
        # evaluation must NOT double)
        gate = generic_classical_gate(rng, rng.randint(0, 2), rng.randint(
            1, 2) if rng.random() < .8 else 0)
        return gate.dagger() if rng.random() < .4 else gate
    if kind == "scalar":
        return g.scalar(rand_complex(rng, 1.2))
    if kind == "mscalar":
        if rng.random() < .3:
            return g.MixedScalar(round(rng.uniform(0, 2), 3))
        # real: "the Born rule has already been applied" (negative ones occur
        # in gradients); a complex mixed scalar has no reading in the statement
        return g.scalar(round(rng.uniform(-1, 2), 3), is_mixed=True)
    if kind == "sqrt":
        return g.sqrt(rng.choice([
            2, 0.5, 3, round(rng.uniform(0, 4), 2), -1, -2, 1j,
            complex(round(rng.uniform(-2, 2), 2), round(rng.uniform(-2, 2), 2))]))
    if kind == "swapqq":
        return g.SWAP
    if kind == "swapbb":
        return c.Swap(_Q["bit"], _Q["bit"])
    if kind == "swap":
        if len(scan) >= 2 and rng.random() < .8:
            off = rng.randint(0, len(scan) - 2)
            return c.Swap(ty(scan[off:off + 1]), ty(scan[off + 1:off + 2]))
        left, right = rand_kinds(rng, 1), rand_kinds(rng, 1)
        return c.Swap(ty(left), ty(right))
    if kind in ("cup", "cap", "cupq"):
        t = _Q["qubit"] if kind == "cupq" or rng.random() < .5 else _Q["bit"]
        if kind == "cap" or (kind == "cupq" and rng.random() < .5):
            return c.Circuit.caps(t, t)
        return c.Circuit.cups(t, t)
    raise AssertionError(kind)


def route(rng, scan, need):
    """
    Brings wires of the kinds `need` side by side with adjacent swaps.
    Returns (list of (offset, left kind, right kind), new scan, offset of the
    block) or None when the register lacks such wires.
    """
    chosen = []
    for kind in need:
        cands = [i for i, k in enumerate(scan) if k == kind and i not in chosen]
        if not cands:
            return None
        chosen.append(rng.choice(cands))
    rest = [i for i in range(len(scan)) if i not in chosen]
    off = rng.randint(0, len(rest))
    order = rest[:off] + chosen + rest[off:]
    current, swaps = list(range(len(scan))), []
    for i, wire in enumerate(order):
        j = current.index(wire)
        while j > i:
            swaps.append((j - 1, scan[current[j - 1]], scan[current[j]]))
            current[j - 1], current[j] = current[j], current[j - 1]
            j -= 1
    return swaps, [scan[w] for w in current], off


def rand_circuit(rng, fragment, dom=None, depth=None):
    """ Random circuit of a family ("any", "cptp", "pure") on <= MAXW wires. """
    c, g, Id = _Q["circuit"], _Q["gates"], _Q["Id"]
    if dom is None:
        n = rng.choice([0, 0, 1, 1, 2, 2, 3, 3, 4])
        dom = n * [QUBIT] if fragment == "pure" else n * [BIT]\
            if fragment == "bits" else rand_kinds(rng, n)
    scan = list(dom)
    circuit = Id(ty(scan))
    depth = rng.randint(2, 8) if depth is None else depth
    placed, tries = 0, 0
    while placed < depth and tries < 60:
        tries += 1
        box = pick_box(rng, scan, fragment)
        need, gives = cq_sim.kinds(box.dom), cq_sim.kinds(box.cod)
        if len(scan) - len(need) + len(gives) > MAXW:
            continue
        spots = [i for i in range(len(scan) - len(need) + 1)
                 if scan[i:i + len(need)] == need]
        if spots and (rng.random() < .6 or not need):
            off = rng.choice(spots)
        else:
            routed = route(rng, scan, need)
            if routed is None:
                # prepare the missing wires first, if there is room
                missing = list(need)
                for k in scan:
                    if k in missing:
                        missing.remove(k)
                if len(scan) + len(missing) > MAXW or rng.random() < .5\
                        or len(scan) + len(missing) - len(need) + len(gives)\
                        > MAXW:
                    continue
                for k in missing:
                    off = rng.randint(0, len(scan))
                    bitv = rng.randint(0, 1)
                    prep = g.Bits(bitv) if k == BIT else g.Ket(bitv)
                    if fragment == "any" and rng.random() < .25:
                        prep = c.MixedState(ty([k]))
                    circuit = circuit >> Id(ty(scan[:off])) @ prep\
                        @ Id(ty(scan[off:]))
                    scan = scan[:off] + [k] + scan[off:]
                routed = route(rng, scan, need)
            swaps, new_scan, off = routed
            for s_off, left, right in swaps:
                circuit = circuit >> Id(ty(scan[:s_off]))\
                    @ c.Swap(ty([left]), ty([right]))\
                    @ Id(ty(scan[s_off + 2:]))
                scan = scan[:s_off] + [right, left] + scan[s_off + 2:]
            if scan != new_scan:
                raise AssertionError("routing went wrong")
        circuit = circuit >> Id(ty(scan[:off])) @ box\
            @ Id(ty(scan[off + len(need):]))
        scan = scan[:off] + gives + scan[off + len(need):]
        placed += 1
    return circuit


def plain_key(circuit):
    """ Structural identity of a circuit, read from public attributes. """
    return (cq_sim.kinds(circuit.dom), cq_sim.kinds(circuit.cod),
            [(label(b), safe_repr(b, 3000), cq_sim.kinds(b.dom),
              cq_sim.kinds(b.cod), bool(getattr(b, "is_dagger", False)))
             for b in circuit.boxes], list(circuit.offsets))


def closure(circuit):
    """ prepare 0 on every input, run, discard every output qubit. """
    c, g, Id = _Q["circuit"], _Q["gates"], _Q["Id"]
    dom, cod = cq_sim.kinds(circuit.dom), cq_sim.kinds(circuit.cod)
    out = circuit
    if dom:
        prep = Id(ty([]))
        for k in dom:
            prep = prep @ (g.Bits(0) if k == BIT else g.Ket(0))
        out = prep >> out
    if QUBIT in cod:
        end = Id(ty([]))
        for k in cod:
            end = end @ (Id(_Q["bit"]) if k == BIT else c.Discard())
        out = out >> end
    return out


# -- monitors --------------------------------------------------------------------

def check_type(ctx, value, circuit, info):
    """ The CQMap has the CQ type of the circuit. """
    dom, cod = cq_sim.kinds(circuit.dom), cq_sim.kinds(circuit.cod)

    def dims(cq):
        return (len(tuple(cq.classical)), len(tuple(cq.quantum)),
                set(tuple(cq.classical)) | set(tuple(cq.quantum)))
    try:
        got = (dims(value.dom), dims(value.cod))
        size = int(np.asarray(value.array).size)
    except Exception as err:
        return ctx.fail("result-type", problem=repr(err), **info)
    want = tuple((ks.count(BIT), ks.count(QUBIT)) for ks in (dom, cod))
    shape = cq_sim.cq_shape(dom, cod)
    ok = tuple(x[:2] for x in got) == want\
        and all(x[2] <= {2} for x in got) and size == 2 ** len(shape)\
        and type(value).__name__ == "CQMap"
    return ctx.expect("result-type", ok, got=repr(got), want=repr(want),
                      cls=type(value).__name__, **info)


def check_superoperator(ctx, circuit, info, cache=None):
    """ (ii): returns (array of discopy, array of cq_sim) or None. """
    ok, value = lib(ctx, "eval(mixed=True)",
                    lambda: circuit.eval(mixed=True), info)
    if not ok:
        return None
    if not check_type(ctx, value, circuit, info):
        return None
    expected = cq_sim.superoperator(circuit)
    got = np.asarray(value.array).reshape(expected.shape)
    ctx.expect("superoperator-equals-cq_sim", close(got, expected),
               **dict(info, **worst(got, expected)))
    return got, expected


def check_default_route(ctx, circuit, info, mixed_array=None, full=True):
    """ Returns the is_mixed flag (None if it raised). """
    want = expected_mixed(circuit)
    ok, flag = lib(ctx, "is_mixed", lambda: circuit.is_mixed, info)
    if not ok:
        return None
    if want is None:
        ctx.count("default_route_not_judged")
        return flag
    if not full:
        ctx.expect("default-route", bool(flag) == want, is_mixed=bool(flag),
                   want_mixed=want, eval_returned="<not called>", **info)
        return flag
    ok, value = lib(ctx, "eval()", lambda: circuit.eval(), info)
    if not ok:
        return flag
    cls = type(value).__name__
    good = bool(flag) == want and cls == ("CQMap" if want else "Tensor")
    if good and want and mixed_array is not None:
        good = close(value.array, mixed_array)
    ctx.expect("default-route", good, is_mixed=bool(flag), want_mixed=want,
               eval_returned=cls, **info)
    # the batch form, behind a pure circuit and without flags: every circuit
    # of the batch still takes its own route
    if good:
        first = _Q["gates"].H
        ok, both = lib(ctx, "pure.eval(circuit)", lambda: first.eval(circuit), info)
        if ok:
            fine = isinstance(both, list) and len(both) == 2\
                and type(both[0]).__name__ == "Tensor"\
                and type(both[1]).__name__ == cls\
                and close(both[1].array, value.array)
            ctx.expect("default-route", fine, call="pure.eval(circuit)",
                       is_mixed=bool(flag), want_mixed=want,
                       eval_returned=[type(x).__name__ for x in both]
                       if isinstance(both, list) else type(both).__name__, **info)
    return flag


def doubled(u, n_in, n_out):
    """ conj(U) (x) U in CQMap order: [a_in, b_in, a_out, b_out]. """
    u = np.asarray(u, dtype=complex).reshape(2 ** n_in, 2 ** n_out)
    out = np.zeros((2 ** n_in, 2 ** n_in, 2 ** n_out, 2 ** n_out),
                   dtype=complex)
    for a in range(2 ** n_in):
        for b in range(2 ** n_in):
            out[a, b] = np.outer(u[a].conjugate(), u[b])
    return out


def case_general(rng, ctx):
    circuit = rand_circuit(rng, "any")
    info = info_of(circuit)
    if len(circuit.boxes) >= 3:
        ctx.mark("any|" + info["circuit"])
    if ctx.index < 16:
        ctx.sample(kind="general", circuit=info["circuit"])
    for lab in set(info["kinds"]):
        ctx.count("box:" + lab.split("(")[0])
    res = check_superoperator(ctx, circuit, info)
    if res is None:
        return
    got, expected = res
    dom, cod = info["dom"], info["cod"]
    check_default_route(ctx, circuit, info, got, full=ctx.index % 8 == 0)
    # dagger law
    ok, dag = lib(ctx, "dagger", lambda: circuit.dagger(), info)
    if ok:
        ok, value = lib(ctx, "dagger().eval(mixed=True)",
                        lambda: dag.eval(mixed=True), info)
        if ok:
            want = cq_sim.adjoint(got, dom, cod)
            ctx.expect("dagger-evaluates-to-adjoint",
                       close(value.array, want),
                       **dict(info, **worst(value.array, want)))
    # discard some outputs
    if cod:
        n = rng.randint(1, len(cod))
        off = rng.randint(0, len(cod) - n)
        drop = list(range(off, off + n))
        tail = _Q["Id"](ty(cod[:off])) @ _Q["circuit"].Discard(
            ty(cod[off:off + n])) @ _Q["Id"](ty(cod[off + n:]))
        ok, value = lib(ctx, "(c >> Discard).eval(mixed=True)",
                        lambda: (circuit >> tail).eval(mixed=True), info,
                        discarded=drop)
        if ok:
            want = marginal(got, dom, cod, drop)
            ctx.expect("discard-is-marginal", close(value.array, want),
                       discarded=drop, **dict(info, **worst(value.array, want)))


def marginal(array, dom, cod, drop):
    """ Partial trace of output wires `drop` of a CQ map (input axes kept). """
    n_in = len(cq_sim.cq_shape(dom, []))
    array = np.asarray(array).reshape(cq_sim.cq_shape(dom, cod))
    flat = array.reshape((2 ** n_in, ) + cq_sim.cq_shape([], cod))
    rows = [cq_sim.partial_trace(row, cod, drop)[0] for row in flat]
    return np.array(rows)


def case_cptp(rng, ctx):
    style = rng.random()
    if style < .06:       # bits only, stochastic gates
        circuit = rand_circuit(rng, "bits", depth=rng.randint(1, 5))
    elif style < .1:
        n = rng.randint(0, 3)
        circuit = rand_circuit(rng, "cptp", dom=n * [BIT])
    elif style < .2:
        n = rng.randint(0, 3)
        circuit = rand_circuit(rng, "cptp", dom=n * [QUBIT])
    else:
        circuit = rand_circuit(rng, "cptp")
    info = info_of(circuit)
    dom, cod = info["dom"], info["cod"]
    if len(circuit.boxes) >= 3:
        ctx.mark("cptp|" + info["circuit"])
    if ctx.index < 16:
        ctx.sample(kind="cptp", circuit=info["circuit"])
    res = check_superoperator(ctx, circuit, info)
    if res is None:
        return
    got, _ = res
    # trace preservation of the whole map
    traced = marginal(got, dom, cod, list(range(len(cod))))
    unit = cq_sim.superoperator(_Q["circuit"].Discard(ty(dom)))\
        if dom else np.ones(())
    ctx.expect("trace-preserving", close(traced, unit),
               **dict(info, **worst(traced, unit)))
    flag = check_default_route(ctx, circuit, info, got, full=False)
    # the distribution
    sim = cq_sim.distribution(circuit)
    bits = [k for k in cod if k == BIT]
    want = np.array([sim[s] for s in cq_sim.strings(len(bits))])
    closed = closure(circuit)
    ok, value = lib(ctx, "closure.eval(mixed=True)",
                    lambda: closed.eval(mixed=True), info)
    if not ok:
        return
    probs = np.asarray(value.array).reshape(-1)
    ctx.expect("distribution-equals-cq_sim", close(probs, want),
               **dict(info, **worst(probs, want)))
    good = probs.size == want.size\
        and float(np.abs(np.imag(probs)).max(initial=0)) <= 1e-9\
        and float(np.real(probs).min(initial=0)) >= -1e-9\
        and abs(float(np.real(probs).sum()) - 1) <= 1e-9
    ctx.expect("probabilities-sum-to-1", good, total=complex(probs.sum()),
               probabilities=[complex(p) for p in probs[:16]], **info)
    ok, iad = lib(ctx, "init_and_discard", circuit.init_and_discard, info)
    if ok and plain_key(iad) == plain_key(closed):
        ctx.ok("init-and-discard")      # the very diagram evaluated above
        ctx.count("init_and_discard_structurally_the_closure")
    elif ok:
        ok, value = lib(ctx, "init_and_discard().eval(mixed=True)",
                        lambda: iad.eval(mixed=True), info)
        if ok:
            ctx.expect("init-and-discard",
                       cq_sim.kinds(iad.dom) == [] and
                       cq_sim.kinds(iad.cod) == bits
                       and close(value.array, probs),
                       result=safe_repr(iad, 600), **info)
    # get_counts
    ok, counts = lib(ctx, "get_counts", circuit.get_counts, info)
    if ok:
        good = isinstance(counts, dict)
        if good:
            for key in counts:
                good = good and isinstance(key, tuple)\
                    and len(key) == len(bits) and all(
                        b in (0, 1) for b in key)
        if good:
            # a value may come as a 1-element array (no output bit): accepted
            values = [np.asarray(counts.get(s, 0)).reshape(-1)
                      for s in cq_sim.strings(len(bits))]
            good = all(v.size == 1 for v in values)
        if good:
            good = close(np.array([complex(v[0]) for v in values]), probs)
        ctx.expect("get_counts-equals-evaluation", good,
                   counts=safe_repr(counts, 600),
                   evaluation=[complex(p) for p in probs[:16]], **info)
    # measure
    # a circuit that is surely mixed: distribution of the output bits, qubits
    # discarded.  Otherwise (no mixed box, never a bit beside a qubit: qubits
    # only, bits only, or a closed classical part followed by qubits) measure()
    # may read every output wire in the computational basis: the diagonal of
    # the final operator (for bits only: again the distribution).
    # (In the third situation both readings are accepted.)
    pure_quantum = expected_mixed(circuit) is not True
    if pure_quantum:
        state = cq_sim.run(circuit, cq_sim.zero_state(dom))
        target = np.real(np.diag(state.ops))
    else:
        target = np.real(probs)
    both = expected_mixed(circuit) is None and QUBIT in cod
    ok, array = lib(ctx, "measure", circuit.measure, info)
    if ok:
        array = np.asarray(array)
        ctx.expect(
            "measure-equals-evaluation", close(array, target)
            or (both and close(array, np.real(probs))), call="measure",
            got=[complex(x) for x in array.reshape(-1)[:16]],
            expected=[complex(x) for x in target.reshape(-1)[:16]],
            got_is_expected_squared=bool(
                array.size == target.size and close(
                    array, np.asarray(target) ** 2)), **info)
    if not pure_quantum and not flag:   # otherwise the same code path again
        ok, array = lib(ctx, "measure(mixed=True)",
                        lambda: circuit.measure(mixed=True), info)
        if ok:
            ctx.expect("measure-equals-evaluation",
                       close(np.asarray(array), target),
                       call="measure(mixed=True)", **info)


def case_pure(rng, ctx):
    circuit = rand_circuit(rng, "pure")
    info = info_of(circuit)
    n_in, n_out = len(info["dom"]), len(info["cod"])
    if len(circuit.boxes) >= 3:
        ctx.mark("pure|" + info["circuit"])
    if ctx.index < 16:
        ctx.sample(kind="pure", circuit=info["circuit"])
    ok, u = lib(ctx, "eval()", lambda: circuit.eval(), info)
    if not ok:
        return
    ok, flag = lib(ctx, "is_mixed", lambda: circuit.is_mixed, info)
    ctx.expect("default-route", ok and not flag
               and type(u).__name__ == "Tensor", is_mixed=flag,
               want_mixed=False, eval_returned=type(u).__name__, **info)
    res = check_superoperator(ctx, circuit, info)
    if res is None:
        return
    got, _ = res
    want = doubled(u.array, n_in, n_out)
    ctx.expect("doubling", close(got, want), **dict(info, **worst(got, want)))
    # a formal sum of this pure circuit and a mixed circuit of the same type,
    # evaluated without flags: the pure term is doubled before it is added
    if ctx.index % 2 == 0:
        Id, C = _Q["Id"], _Q["circuit"]
        dephase = C.Measure() >> C.Encode()
        if n_out:
            k = rng.randrange(n_out)
            other = circuit >> Id(ty(info["cod"][:k])) @ dephase\
                @ Id(ty(info["cod"][k + 1:]))
        elif n_in:
            k = rng.randrange(n_in)
            other = Id(ty(info["dom"][:k])) @ dephase\
                @ Id(ty(info["dom"][k + 1:])) >> circuit
        else:
            other = circuit @ (_Q["gates"].Ket(0) >> _Q["gates"].H >> C.Discard())
        info_o = info_of(other)
        res_o = check_superoperator(ctx, other, info_o)
        if res_o is not None:
            for order, total in (("pure + mixed", lambda: circuit + other),
                                 ("mixed + pure", lambda: other + circuit)):
                ok, value = lib(ctx, "({}).eval()".format(order),
                                lambda: total().eval(), info, other=info_o["circuit"])
                if ok:
                    target = np.asarray(want).reshape(-1)\
                        + np.asarray(res_o[0]).reshape(-1)
                    ctx.expect("doubling", type(value).__name__ == "CQMap"
                               and close(value.array, target),
                               call="({}).eval()".format(order),
                               eval_returned=type(value).__name__,
                               other=info_o["circuit"], **info)
                    ctx.count("sums_of_a_pure_and_a_mixed_term_evaluated")
    # measure() of a pure circuit: |amplitude|^2 of (Ket(0..0) >> circuit)
    amp = np.asarray(u.array, dtype=complex).reshape(2 ** n_in, 2 ** n_out)[0]
    ok, array = lib(ctx, "measure", circuit.measure, info)
    if ok:
        ctx.expect("born-rule", close(np.asarray(array), np.abs(amp) ** 2),
                   call="measure()", **info)
    state = cq_sim.run(circuit, cq_sim.zero_state(info["dom"]))
    ctx.expect("born-rule", close(np.diag(state.ops), np.abs(amp) ** 2),
               call="cq_sim-vs-amplitudes", **info)
    # measuring everything
    if n_out:
        measured = circuit >> _Q["circuit"].Measure(n_out)
        ok, value = lib(ctx, "(c >> Measure(n)).eval()",
                        lambda: measured.eval(), info_of(measured))
        if ok:
            want = doubled(u.array, n_in, n_out)
            diag = np.array([[want[a, b, k, k] for k in range(2 ** n_out)]
                             for a in range(2 ** n_in)
                             for b in range(2 ** n_in)])
            ctx.expect("born-rule", type(value).__name__ == "CQMap"
                       and close(value.array, diag),
                       call="(c >> Measure(n)).eval()", **info)


def rand_state(rng, m):
    """ A pure state preparation on m qubits (not normalised on purpose). """
    g, Id = _Q["gates"], _Q["Id"]
    psi = g.Ket(*rand_bits(rng, m)) if m else Id(ty([]))
    for _ in range(rng.randint(1, 4) if m else 0):
        n = 1 if m == 1 or rng.random() < .5 else 2
        gate = rng.choice([named_unitary, unitary_gate, generic_gate])(rng, n)
        off = rng.randint(0, m - n)
        psi = psi >> Id(off) @ gate @ Id(m - n - off)
    return psi


def case_variants(rng, ctx):
    c, g, Id = _Q["circuit"], _Q["gates"], _Q["Id"]
    # (a) Measure / Encode variants on their own
    n = rng.choice([0, 1, 1, 1, 2, 2])
    d, o = rng.random() < .5, rng.random() < .5
    m_box, e_box = c.Measure(n, d, o), c.Encode(n, d, o)
    info = info_of(m_box)
    info["variant"] = [n, d, o]
    ok, m_val = lib(ctx, "Measure(v).eval(mixed=True)",
                    lambda: m_box.eval(mixed=True), info)
    if ok:
        m_arr = np.asarray(m_val.array)
        want = cq_sim.superoperator(m_box)
        ctx.expect("superoperator-equals-cq_sim", close(m_arr, want),
                   **dict(info, **worst(m_arr, want)))
        adj = cq_sim.adjoint(m_arr, info["dom"], info["cod"])
        for call, fn, target in [
                ("Encode(v)", lambda: e_box, adj),
                ("Measure(v).dagger()", m_box.dagger, adj),
                ("Encode(v).dagger()", e_box.dagger, m_arr)]:
            ok, box = lib(ctx, call, fn, info)
            if not ok:
                continue
            ok, value = lib(ctx, call + ".eval(mixed=True)",
                            lambda: box.eval(mixed=True), info_of(box))
            if ok:
                ctx.expect("adjoint-measure-encode",
                           close(value.array, target), call=call,
                           **dict(info, **worst(value.array, target)))
    # (b) Discard / MixedState on any type
    kinds = rand_kinds(rng, rng.choice([0, 1, 1, 2, 2, 3, 3]))
    d_box, s_box = c.Discard(ty(kinds)), c.MixedState(ty(kinds))
    info = info_of(d_box)
    ok, d_val = lib(ctx, "Discard(T).eval(mixed=True)",
                    lambda: d_box.eval(mixed=True), info)
    if ok:
        d_arr = np.asarray(d_val.array)
        n_c, n_q = kinds.count(BIT), kinds.count(QUBIT)
        want = np.zeros(cq_sim.cq_shape(kinds, []))
        for cv in cq_sim.strings(n_c):
            for a in cq_sim.strings(n_q):
                want[cv + a + a] = 1          # ones (x) identity
        ctx.expect("adjoint-discard-mixedstate", close(d_arr, want),
                   call="Discard(T) closed form", **info)
        adj = cq_sim.adjoint(d_arr, kinds, [])
        for call, fn, target in [
                ("MixedState(T)", lambda: s_box, adj),
                ("Discard(T).dagger()", d_box.dagger, adj),
                ("MixedState(T).dagger()", s_box.dagger, d_arr)]:
            ok, box = lib(ctx, call, fn, info)
            if not ok:
                continue
            ok, value = lib(ctx, call + ".eval(mixed=True)",
                            lambda: box.eval(mixed=True), info_of(box))
            if ok:
                ctx.expect("adjoint-discard-mixedstate",
                           close(value.array, target), call=call,
                           **dict(info, **worst(value.array, target)))
    # batch forms of eval / get_counts (two small trace-preserving circuits)
    bitv = rng.randint(0, 1)
    one, two = g.Ket(bitv) >> c.Measure(), c.Discard(ty(kinds))
    ok, both = lib(ctx, "eval(other, mixed=True)",
                   lambda: one.eval(two, mixed=True), info_of(one))
    if ok:
        point = [1 - bitv, bitv]
        ctx.expect("born-rule", isinstance(both, list) and len(both) == 2
                   and close(both[0].array, point)
                   and close(both[1].array, cq_sim.superoperator(two)),
                   call="eval(other, mixed=True)", **info_of(one))
    ok, both = lib(ctx, "get_counts(other)",
                   lambda: one.get_counts(two), info_of(one))
    if ok:
        good = isinstance(both, list) and len(both) == 2\
            and all(isinstance(x, dict) for x in both)\
            and sorted(both[0]) == [(bitv, )] and sorted(both[1]) == [()]\
            and close(both[0][(bitv, )], 1) and close(both[1][()], 1)
        ctx.expect("get_counts-equals-evaluation", good,
                   call="get_counts(other)", counts=safe_repr(both, 300),
                   **info_of(one))
    # (c) Born rule in context, twice
    for _ in range(2):
        born_setup(rng, ctx)


def born_setup(rng, ctx):
    c, g, Id = _Q["circuit"], _Q["gates"], _Q["Id"]
    m = rng.randint(1, 3)
    n = rng.randint(1, min(2, m))
    off = rng.randint(0, m - n)
    rest = m - n - off
    d, o = rng.random() < .5, rng.random() < .35
    psi = rand_state(rng, m)
    ok, amp = lib(ctx, "state.eval()", lambda: psi.eval(), info_of(psi))
    if not ok:
        return
    prob = np.abs(np.asarray(amp.array, dtype=complex).reshape(m * (2, ))) ** 2
    want = prob.sum(axis=tuple(range(off)) + tuple(range(off + n, m)))
    setup_ = psi
    if o:
        old = rand_bits(rng, n)
        setup_ = setup_ >> Id(off + n) @ g.Bits(*old) @ Id(rest)
    measured = setup_ >> Id(off) @ c.Measure(n, d, o) @ Id(rest)
    # discard every qubit that is left
    after = off * [QUBIT] + ([] if d else n * [QUBIT]) + n * [BIT]\
        + rest * [QUBIT]
    end = Id(ty([]))
    for k in after:
        end = end @ (Id(_Q["bit"]) if k == BIT else c.Discard())
    full = measured >> end if QUBIT in after else measured
    info = info_of(full)
    info["variant"] = [n, d, o]
    ctx.mark("born|" + info["circuit"])
    ok, value = lib(ctx, "(state >> Measure(v) >> discards).eval(mixed=True)",
                    lambda: full.eval(mixed=True), info)
    if ok:
        monitor = "born-rule" if m == n else "born-marginal"
        ctx.expect(monitor, close(value.array, want),
                   **dict(info, **worst(value.array, want)))
    if not d and m == n:
        # keep the qubits, discard the bits: coherences are gone
        deph = measured >> Id(n) @ c.Discard(ty(n * [BIT]))
        ok, value = lib(ctx, "(state >> Measure(nondestructive) >> "
                        "Discard(bits)).eval(mixed=True)",
                        lambda: deph.eval(mixed=True), info_of(deph))
        if ok:
            flat = prob.reshape(-1)
            want = np.zeros((flat.size, flat.size))
            for k in range(flat.size):
                want[k, k] = flat[k]
            ctx.expect("born-dephasing", close(value.array, want),
                       **dict(info, **worst(value.array, want)))


def run_case(rng, ctx):
    kind = ctx.index % 8
    if kind <= 3:
        case_general(rng, ctx)
    elif kind <= 5:
        case_cptp(rng, ctx)
    elif kind == 6:
        case_pure(rng, ctx)
    else:
        case_variants(rng, ctx)


# -- known findings: mechanisms, never seeds ------------------------------------------

def _override_bits_discard_type(monitor, w):
    """
    cqmap.Functor._ar hands CQMap.discard a Dim (self(box.dom).classical)
    instead of a CQ type, so any circuit containing Measure(override_bits=
    True) or Encode(reset_bits=True) cannot be evaluated.
    """
    return monitor == "evaluation-returns"\
        and w.get("exception") == "AttributeError"\
        and "'Dim' object has no attribute 'classical'" in w.get("message", "")\
        and w.get("has_override_or_reset") is True\
        and any(s.startswith("discard:") for s in w.get("where", []))


def _measure_classical_only(monitor, w):
    """
    Circuit.measure() takes the amplitude (pure-quantum) branch whenever
    is_mixed is False, also for circuits that carry bits: (a) a circuit made
    of bits only gets its probabilities squared as if they were amplitudes;
    (b) a bit input cannot be fed by the Ket(0, ...) that branch prepends.
    """
    if w.get("call") != "measure" or w.get("bits_but_not_mixed") is not True:
        return False
    if monitor == "measure-equals-evaluation":
        return w.get("classical_only") is True\
            and w.get("got_is_expected_squared") is True\
            and w.get("has_stochastic_gate") is True
    if monitor == "evaluation-returns":
        return w.get("exception") == "AxiomError"\
            and w.get("message", "").startswith("Ket(")\
            and "does not compose" in w.get("message", "")\
            and BIT in w.get("dom", [])
    return False


PREDICATES = {
    "override_bits_discard_type": _override_bits_discard_type,
    "measure_classical_only": _measure_classical_only,
}
