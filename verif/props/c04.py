"""
C04 - functors are functorial.

Monitors
  law:<op>            F(op(a, b)) == op(F(a), F(b)) for then, tensor, identity,
                      dagger, slices, sums; dom/cod of the image
  predicted-image     F(d) has exactly the (dom, cod, boxes, offsets) that the
                      list-level model predicts from the images of the boxes
  adjoint-images      rigid: F(t.l) == F(t).l, F(t.r) == F(t).r, predicted F(t)
  cup-cap-swap-image  rigid: images of Cup/Cap are the nested cups/caps of the
                      image types (predicted layer by layer), image of a Swap is
                      an adjacent-swap diagram realising the block permutation
"""
from verif.gen import kits
from verif.instrument import safe_repr
from verif.models import struct, wiring
from verif.models.typing import tykey, well_typed

ID = "C04"
TECHNIQUE = ("runtime monitoring: functoriality laws observed on returned "
             "diagrams plus a list-level prediction of every image")
RULE = ("case = random functor configuration (object images of length 0-3, box "
        "images random well-typed diagrams of 0-3 boxes closed by a fixing box; "
        "mapping as dict, callable or Quiver; cat / monoidal / rigid) x a "
        "composable pair and a third diagram (daggered boxes, swaps, cups, caps, "
        "adjoint types).  Non-trivial = some object image has length != 1 and "
        "the diagrams have >= 3 boxes; distinct by the repr of diagrams and "
        "object map."
        "  Also: re-entrant box maps (macro boxes) and one functor object whose maps are changed in place between two rounds.")
SIZES = {"quick": (16, 110), "thorough": (16, 3000)}
TIMEOUT = {"quick": 600, "thorough": 5400}
COVER = {"discopy.cat:Functor.__call__": 0.75,
         "discopy.monoidal:Functor.__call__": 0.85,
         "discopy.rigid:Functor.__call__": 0.9,
         "discopy.rigid:cups": 0.8}
MIN_EVALS = {"quick": {"predicted-image": 3000, "law:then": 1500,
                       "law:dagger": 1500, "adjoint-images": 1500,
                       "cup-cap-swap-image": 300},
             "thorough": {"predicted-image": 80000}}
ASSUMPTIONS = [
    "box images in the independent prediction are diagrams of generic boxes; "
    "the image of a daggered box is predicted as the list-level dagger of the "
    "image of its undaggered twin",
    "the exact decomposition of the image of a Swap is not prescribed: it must "
    "equal Diagram.swap of the image types and realise the block permutation "
    "with adjacent swaps"]


def swap_dagger_known(monitor, witness):
    """
    F(Swap(x, y)[::-1]) vs F(Swap(x, y))[::-1] when both object images have
    length >= 2: the generator Swap(y, x) is mapped to swap(Fy, Fx), which
    orders the crossings differently from the dagger of swap(Fx, Fy).
    """
    return monitor == "law:dagger" and witness.get("swap_with_both_images_ge2")\
        and witness.get("same_boundary_and_denotation") is True\
        and witness.get("differs_only_in_swap_order") is True


PREDICATES = {"swap_dagger_known": swap_dagger_known}

_KITS = {}


def setup(ctx):
    _KITS["monoidal"] = kits.MonoidalKit()
    _KITS["rigid"] = kits.RigidKit()
    _KITS["rigid-nostruct"] = kits.RigidKit(structural=False)
    _KITS["cat"] = kits.CatKit()


# -- list-level model ----------------------------------------------------------

def base_of(box):
    return box.dagger() if getattr(box, "is_dagger", False) else box


def flip(bk):
    _, name, dom, cod, data, dag = bk
    return ("Box", name, cod, dom, data, not dag)


def dagger_layers(layers):
    return tuple((flip(bk), off) for bk, off in reversed(layers))


def predict(d, ob_image, ar_image):
    """
    Predicted key of F(d).  ob_image: obkey -> tuple of obkeys;
    ar_image: boxkey of an undaggered box -> ("D", dom, cod, layers).
    Returns None when d contains a box the model does not cover.
    """
    def image_ty(tk):
        out = ()
        for ob in tk:
            out += ob_image(ob)
        return out
    layers = []
    scan = tykey(d.dom)
    for box, off in zip(d.boxes, d.offsets):
        bk = struct.boxkey(box)
        if bk[0] != "Box":
            return None
        if bk[5]:       # daggered: dagger of the image of the twin
            twin = struct.boxkey(base_of(box))
            img = ar_image.get(twin)
            if img is None:
                return None
            img_layers = dagger_layers(img[3])
        else:
            img = ar_image.get(bk)
            if img is None:
                return None
            img_layers = img[3]
        shift = len(image_ty(scan[:off]))
        layers += [(ibk, ioff + shift) for ibk, ioff in img_layers]
        scan = scan[:off] + tykey(box.cod) + scan[off + len(box.dom):]
    return ("D", image_ty(tykey(d.dom)), image_ty(tykey(d.cod)), tuple(layers))


def adjoint_image(ob, images):
    """ rigid: image of (name, z) from the image of (name,). """
    name, z = ob[0], (ob[1] if len(ob) > 1 else 0)
    base = images[name]
    if z % 2:
        base = tuple(reversed(base))
    return tuple((o[0], (o[1] if len(o) > 1 else 0) + z) if
                 (o[1] if len(o) > 1 else 0) + z else (o[0],) for o in base)


# -- the case -------------------------------------------------------------------

def run_case(rng, ctx):
    which = ["monoidal", "rigid", "rigid", "cat", "monoidal", "rigid"][ctx.index % 6]
    if which == "cat":
        return cat_case(rng, ctx)
    rigid = which == "rigid"
    kit = _KITS[which]
    mod = kit.mod
    a = kit.rand_diagram(rng, rng.randint(0, 4), width=rng.randint(0, 3), raw=False)
    b = kit.rand_diagram(rng, rng.randint(0, 3), dom=a.cod, raw=False)
    c = kit.rand_diagram(rng, rng.randint(0, 3), width=2, raw=False)
    diagrams = [a, b, c]
    # -- configuration -----------------------------------------------------------
    img_kit = _KITS["rigid-nostruct"] if rigid else kit
    names = kits.ATOMS
    lengths = [rng.choice([0, 1, 1, 2, 2, 3]) for _ in names]
    images = {name: img_kit.rand_ty(rng, n) for name, n in zip(names, lengths)}
    image_keys = {name: tykey(t) for name, t in images.items()}

    def ob_image(ob):
        return adjoint_image(ob, image_keys) if rigid else image_keys[ob[0]]

    def image_ty(ty):
        out = mod.Ty()
        for ob in ty.objects:
            t = images[ob.name]
            z = getattr(ob, "z", 0)
            for _ in range(abs(z)):
                t = t.r if z > 0 else t.l
            out = out @ t
        return out
    ar, ar_keys, bases = {}, {}, []
    for d in diagrams:
        for box in d.boxes:
            if struct.boxkey(box)[0] != "Box":
                continue
            base = base_of(box)
            key = struct.boxkey(base)
            if key in ar_keys:
                continue
            fdom, fcod = image_ty(base.dom), image_ty(base.cod)
            img = img_kit.rand_diagram(rng, rng.randint(0, 2), dom=fdom, raw=False)
            if img.cod != fcod or rng.random() < .5:
                img = img >> img_kit.box_with_dom(rng, img.cod, cod=fcod)
            ar[base] = img
            ar_keys[key] = struct.key(img)
            bases.append(base)
    style = rng.choice(["dict", "callable", "quiver"])
    ob_map = {mod.Ty(name): t for name, t in images.items()}
    # a "macro" box: its image is the image, under the SAME functor, of a
    # source diagram (the box map calls the functor it belongs to)
    macros = {}
    if style != "dict" and bases and rng.random() < .4:
        m = bases[rng.randrange(len(bases))]
        # plain boxes only: the prediction does not model daggers of
        # structural boxes (swaps, cups) INSIDE images
        sub = img_kit.rand_diagram(rng, rng.randint(0, 2), dom=m.dom, raw=False)
        sub = sub >> img_kit.box_with_dom(rng, sub.cod, cod=m.cod)
        usable = True
        for box in sub.boxes:
            bb = base_of(box)
            kb = struct.boxkey(bb)
            if kb[0] != "Box":
                continue
            if kb == struct.boxkey(m):
                usable = False          # no self-reference
            elif kb not in ar_keys:
                fdom, fcod = image_ty(bb.dom), image_ty(bb.cod)
                ar[bb] = img_kit.box_with_dom(rng, fdom, cod=fcod)
                ar_keys[kb] = struct.key(ar[bb])
        if usable:
            try:
                ar[m] = mod.Functor(dict(ob_map), dict(ar))(sub)
                ar_keys[struct.boxkey(m)] = struct.key(ar[m])
                macros[m] = sub
                ctx.count("functors_with_a_reentrant_box_map")
            except Exception:
                pass

    def ar_callable(f):
        return F(macros[f]) if f in macros else ar[f]
    if style == "dict":
        functor = mod.Functor(ob_map, ar)
    elif style == "callable":
        functor = mod.Functor(lambda t: ob_map[t], ar_callable)
    else:
        from discopy.cat import Quiver
        functor = mod.Functor(Quiver(lambda t: ob_map[t]), Quiver(ar_callable))
    F = functor
    witness = dict(cls=which, style=style,
                   ob=lambda: {k: safe_repr(v, 80) for k, v in images.items()},
                   a=lambda: safe_repr(a, 700), b=lambda: safe_repr(b, 500))

    def law(name, lhs, rhs, **extra):
        try:
            ok = bool(lhs == rhs) and bool(rhs == lhs)
        except Exception as err:
            ok = False
            extra["eq_raised"] = type(err).__name__
        ctx.expect("law:" + name, ok, lhs=lambda: safe_repr(lhs, 900),
                   rhs=lambda: safe_repr(rhs, 900), **dict(witness, **extra))
        return ok
    Fa, Fb, Fc = F(a), F(b), F(c)
    for d, Fd in zip(diagrams, (Fa, Fb, Fc)):
        ok, why = well_typed(Fd)
        ctx.expect("image-well-typed", ok, reason=why, diagram=lambda: safe_repr(d),
                   image=lambda: safe_repr(Fd), **witness)
        law("dom-cod", (Fd.dom, Fd.cod), (F(d.dom), F(d.cod)))
        ctx.expect("predicted-image",
                   tykey(Fd.dom) == tuple(x for ob in tykey(d.dom) for x in ob_image(ob))
                   and tykey(Fd.cod) == tuple(x for ob in tykey(d.cod) for x in ob_image(ob)),
                   kind="dom/cod of the image", diagram=lambda: safe_repr(d), **witness)
        predicted = predict(d, ob_image, ar_keys)
        if predicted is not None:
            got = struct.key(Fd)
            ctx.expect("predicted-image", got == predicted, diagram=lambda: safe_repr(d),
                       got=lambda: repr(got)[:1500],
                       predicted=lambda: repr(predicted)[:1500], **witness)
        else:
            ctx.count("prediction_skipped_structural_boxes")
    law("then", F(a >> b), Fa >> Fb)
    if len(Fa.cod) + len(Fc.cod) <= 12:
        law("tensor", F(a @ c), Fa @ Fc)
        law("tensor", F(c @ a), Fc @ Fa)
    law("identity", F(mod.Id(a.dom)), mod.Id(F(a.dom)))
    law("identity", F(mod.Id(mod.Ty())), mod.Id(mod.Ty()))
    for d, Fd in ((a, Fa), (a >> b, None)):
        Fd = F(d) if Fd is None else Fd
        lhs, rhs = F(d[::-1]), Fd[::-1]
        dagger_law(ctx, law, d, lhs, rhs, images)
        n = len(d)
        i, j = sorted((rng.randint(0, n), rng.randint(0, n)))
        law("slice", F(d[:i]) >> F(d[i:j]) >> F(d[j:]), Fd, i=i, j=j)
        if n:
            k = rng.randrange(n)
            law("slice", F(d[k]), F(d[k:k + 1]), k=k)
    alt = kit.rand_diagram(rng, rng.randint(0, 1), dom=a.dom, raw=False)
    fix = kit.box_with_dom(rng, alt.cod, cod=a.cod)
    if struct.boxkey(base_of(fix)) in ar_keys or True:
        base = base_of(fix)
        for box in alt.boxes + [fix]:
            bb = base_of(box)
            if struct.boxkey(bb)[0] == "Box" and struct.boxkey(bb) not in ar_keys:
                fdom, fcod = image_ty(bb.dom), image_ty(bb.cod)
                ar[bb] = img_kit.box_with_dom(rng, fdom, cod=fcod)
                ar_keys[struct.boxkey(bb)] = struct.key(ar[bb])
        alt = alt >> fix
        law("sum", F(a + alt), Fa + F(alt))
        zero = a.sum([], a.dom, a.cod)
        law("sum", F(zero), Fa.sum([], Fa.dom, Fa.cod))
        law("sum", F((a + alt) >> b), (Fa >> Fb) + (F(alt) >> Fb))
    # bubbles: F(inside.bubble(dom, cod)) is the bubble of the image with the
    # images of the DECLARED boundary (which may differ from the inside's and
    # whose image may be empty), also inside a composite
    try:
        explicit = rng.random() < .7
        bdom = kit.rand_ty(rng, rng.choice([0, 1, 2])) if explicit else a.dom
        bcod = kit.rand_ty(rng, rng.choice([0, 1, 2])) if explicit else a.cod
        bub = a.bubble(dom=bdom, cod=bcod) if explicit else a.bubble()
        Fbub = F(bub)
        law("bubble", Fbub, Fa.bubble(dom=F(bdom), cod=F(bcod)), bubble_dom=repr(bdom),
            bubble_cod=repr(bcod), explicit_boundary=explicit)
        ctx.expect("predicted-image",
                   tykey(Fbub.dom) == tuple(x for ob in tykey(bdom) for x in ob_image(ob))
                   and tykey(Fbub.cod) == tuple(x for ob in tykey(bcod) for x in ob_image(ob))
                   and len(Fbub.boxes) == 1
                   and struct.key(Fbub.boxes[0].inside) == struct.key(Fa),
                   kind="dom/cod/inside of the image of a bubble",
                   bubble_dom=repr(bdom), bubble_cod=repr(bcod),
                   image=lambda: safe_repr(Fbub, 600), **witness)
        pre = kit.box_with_dom(rng, kit.rand_ty(rng, rng.randint(0, 2)), cod=bdom)
        bb = base_of(pre)
        if struct.boxkey(bb) not in ar_keys:
            ar[bb] = img_kit.box_with_dom(rng, image_ty(bb.dom), cod=image_ty(bb.cod))
            ar_keys[struct.boxkey(bb)] = struct.key(ar[bb])
        law("then", F(pre >> bub), F(pre) >> Fbub, through="bubble")
        law("dom-cod", (F(pre >> bub).dom, F(pre >> bub).cod), (F(pre.dom), F(bcod)),
            through="bubble")
        law("tensor", F(bub @ c), Fbub @ Fc, through="bubble")
        ctx.count("bubbles_mapped")
        if not len(F(bdom)) or not len(F(bcod)):
            ctx.count("bubbles_with_an_empty_boundary_image")
    except Exception as err:
        ctx.fail("law:bubble", exception=type(err).__name__, message=str(err)[:300],
                 **witness)
    if rigid:
        rigid_case(rng, ctx, kit, F, images, image_keys, witness, law)
        if ctx.index % 4 == 1:
            monoidal_functor_on_rigid_types(rng, ctx)
    # histories: the SAME functor object after its maps were changed (dicts
    # updated in place / callables reading them): every call uses the maps
    # current at that call
    if not macros and rng.random() < .5:
        lengths2 = [rng.choice([0, 1, 1, 2, 2, 3]) for _ in names]
        images2 = {name: img_kit.rand_ty(rng, n) for name, n in zip(names, lengths2)}
        images.clear()
        images.update(images2)
        image_keys.clear()
        image_keys.update({name: tykey(t) for name, t in images.items()})
        ob_map.update({mod.Ty(name): t for name, t in images.items()})
        for base in list(ar):
            fdom, fcod = image_ty(base.dom), image_ty(base.cod)
            img = img_kit.rand_diagram(rng, rng.randint(0, 1), dom=fdom, raw=False)
            img = img >> img_kit.box_with_dom(rng, img.cod, cod=fcod)
            ar[base] = img
            ar_keys[struct.boxkey(base)] = struct.key(img)
        history = "same functor object, maps changed in place"
        try:
            Fa2, Fb2 = F(a), F(b)
        except Exception as err:
            ctx.fail("predicted-image", exception=type(err).__name__,
                     message=str(err)[:300], history=history, **witness)
            Fa2 = None
        if Fa2 is not None:
            for d, Fd in ((a, Fa2), (b, Fb2)):
                ok, why = well_typed(Fd)
                ctx.expect("image-well-typed", ok, reason=why, history=history,
                           diagram=lambda: safe_repr(d),
                           image=lambda: safe_repr(Fd), **witness)
                law("dom-cod", (Fd.dom, Fd.cod), (F(d.dom), F(d.cod)),
                    history=history)
                predicted = predict(d, ob_image, ar_keys)
                if predicted is not None:
                    got = struct.key(Fd)
                    ctx.expect("predicted-image", got == predicted,
                               history=history, diagram=lambda: safe_repr(d),
                               got=lambda: repr(got)[:1500],
                               predicted=lambda: repr(predicted)[:1500], **witness)
            law("then", F(a >> b), Fa2 >> Fb2, history=history)
            ctx.count("functors_reconfigured_between_calls")
    if any(n != 1 for n in lengths) and len(a) + len(b) + len(c) >= 3:
        ctx.mark(which + style + repr(lengths) + safe_repr(a, 300) + safe_repr(b, 200))
    if ctx.index < 18:
        ctx.sample(cls=which, style=style, object_image_lengths=lengths,
                   a=safe_repr(a, 250), Fa=safe_repr(Fa, 250))


def has_wide_swap(d, images):
    for box in d.boxes:
        if type(box).__name__ == "Swap" and hasattr(box, "left"):
            if len(images[box.left.objects[0].name]) >= 2\
                    and len(images[box.right.objects[0].name]) >= 2:
                return True
    return False


def dagger_law(ctx, law, d, lhs, rhs, images):
    extra = {}
    try:
        equal = bool(lhs == rhs)
    except Exception:
        equal = False
    if not equal:
        wide = has_wide_swap(d, images)
        extra["swap_with_both_images_ge2"] = wide
        if wide:
            same = tykey(lhs.dom) == tykey(rhs.dom) and tykey(lhs.cod) == tykey(rhs.cod)
            same = same and wiring.wiring_modulo_swaps(lhs)\
                == wiring.wiring_modulo_swaps(rhs)
            extra["same_boundary_and_denotation"] = same
            non_swaps_l = [(struct.boxkey(b), o) for b, o in zip(lhs.boxes, lhs.offsets)
                           if type(b).__name__ != "Swap"]
            non_swaps_r = [(struct.boxkey(b), o) for b, o in zip(rhs.boxes, rhs.offsets)
                           if type(b).__name__ != "Swap"]
            extra["differs_only_in_swap_order"] = (
                [k for k, _ in non_swaps_l] == [k for k, _ in non_swaps_r]
                and len(lhs) == len(rhs))
    law("dagger", lhs, rhs, diagram=lambda: safe_repr(d, 700), **extra)


def follow_permutation(d):
    """ Wire permutation realised by a diagram made of adjacent swaps only. """
    wires = list(range(len(d.dom)))
    for box, off in zip(d.boxes, d.offsets):
        if type(box).__name__ != "Swap" or len(box.dom) != 2:
            return None
        wires[off], wires[off + 1] = wires[off + 1], wires[off]
    out = [None] * len(wires)
    for position, wire in enumerate(wires):
        out[wire] = position
    return out


def rigid_case(rng, ctx, kit, F, images, image_keys, witness, law):
    mod = kit.mod
    t = kit.rand_ty(rng, rng.randint(0, 3))
    Ft = F(t)
    ctx.expect("adjoint-images",
               tykey(Ft) == tuple(x for ob in tykey(t) for x in adjoint_image(ob, image_keys)),
               kind="F(t) differs from the predicted image", t=lambda: safe_repr(t),
               Ft=lambda: safe_repr(Ft), **witness)
    for label, adj, Fadj in (("l", t.l, Ft.l), ("r", t.r, Ft.r),
                             ("ll", t.l.l, Ft.l.l), ("rr", t.r.r, Ft.r.r)):
        got = F(adj)
        ctx.expect("adjoint-images", got == Fadj and tykey(got) == tykey(Fadj),
                   kind="F(t.{0}) != F(t).{0}".format(label), t=lambda: safe_repr(t),
                   got=lambda: safe_repr(got), expected=lambda: safe_repr(Fadj), **witness)
    x = kit.rand_ty(rng, 1)
    Fx = F(x)
    n = len(Fx)
    for cup, factory, left, right in (
            (mod.Cup(x, x.r), mod.Cup, Fx, Fx.r), (mod.Cup(x.l, x), mod.Cup, Fx.l, Fx),
            (mod.Cap(x, x.l), mod.Cap, Fx, Fx.l), (mod.Cap(x.r, x), mod.Cap, Fx.r, Fx)):
        got = F(cup)
        is_cap = factory is mod.Cap
        expected = []
        for i in range(n):
            j = n - 1 - i
            expected.append((struct.boxkey(factory(left[j:j + 1], right[i:i + 1])), j))
        if is_cap:
            expected.reverse()
        pairs = tykey(left) + tykey(right)
        pred = ("D", () if is_cap else pairs, pairs if is_cap else (), tuple(expected))
        ctx.expect("cup-cap-swap-image", struct.key(got) == pred,
                   kind="image of {} is not the nested {}".format(
                       cup, "caps" if is_cap else "cups"),
                   got=lambda: safe_repr(got), predicted=lambda: repr(pred)[:1200],
                   **witness)
        ok, why = well_typed(got)
        ctx.expect("image-well-typed", ok, reason=why, image=lambda: safe_repr(got),
                   **witness)
    y = kit.rand_ty(rng, 1)
    Fy = F(y)
    got = F(mod.Swap(x, y))
    perm = follow_permutation(got)
    nx, ny = len(Fx), len(Fy)
    block = [ny + k for k in range(nx)] + list(range(ny))
    ctx.expect("cup-cap-swap-image",
               perm == block and tykey(got.dom) == tykey(Fx @ Fy)
               and tykey(got.cod) == tykey(Fy @ Fx),
               kind="image of a Swap is not the block swap of the image types",
               got=lambda: safe_repr(got), perm=perm, expected_perm=block, **witness)
    law("swap-image", got, mod.Diagram.swap(Fx, Fy))
    ok, why = well_typed(got)
    ctx.expect("image-well-typed", ok, reason=why, image=lambda: safe_repr(got), **witness)


def cat_case(rng, ctx):
    kit = _KITS["cat"]
    cat = kit.mod
    a = kit.rand_arrow(rng, rng.randint(0, 4), raw=False)
    b = kit.rand_arrow(rng, rng.randint(0, 3), dom=a.cod, raw=False)
    perm = list(kits.ATOMS)
    rng.shuffle(perm)
    ob = {cat.Ob(x): cat.Ob(rng.choice(perm)) for x in kits.ATOMS}
    ar, ar_keys = {}, {}
    for box in a.boxes + b.boxes:
        base = base_of(box)
        key = struct.boxkey(base)
        if key not in ar_keys:
            img = kit.rand_arrow(rng, rng.randint(0, 2), dom=ob[base.dom], raw=False)
            img = img >> kit.box(rng, img.cod, ob[base.cod])
            ar[base], ar_keys[key] = img, struct.key(img)
    style = rng.choice(["dict", "callable", "quiver"])
    if style == "dict":
        F = cat.Functor(ob, ar)
    elif style == "callable":
        F = cat.Functor(lambda x: ob[x], lambda f: ar[f])
    else:
        F = cat.Functor(cat.Quiver(lambda x: ob[x]), cat.Quiver(lambda f: ar[f]))
    witness = dict(cls="cat", style=style, a=lambda: safe_repr(a, 600),
                   b=lambda: safe_repr(b, 400))

    def law(name, lhs, rhs, **extra):
        ok = bool(lhs == rhs) and bool(rhs == lhs)
        ctx.expect("law:" + name, ok, lhs=lambda: safe_repr(lhs, 700),
                   rhs=lambda: safe_repr(rhs, 700), **dict(witness, **extra))
    Fa, Fb = F(a), F(b)
    law("then", F(a >> b), Fa >> Fb)
    law("identity", F(cat.Id(a.dom)), cat.Id(F(a.dom)))
    law("dagger", F(a[::-1]), Fa[::-1])
    law("dagger", F((a >> b)[::-1]), Fb[::-1] >> Fa[::-1])
    law("dom-cod", (Fa.dom, Fa.cod), (F(a.dom), F(a.cod)))
    n = len(a)
    i, j = sorted((rng.randint(0, n), rng.randint(0, n)))
    law("slice", F(a[:i]) >> F(a[i:j]) >> F(a[j:]), Fa, i=i, j=j)
    law("sum", F(a + a), Fa + Fa)
    law("sum", F(cat.Sum([], a.dom, a.cod)), cat.Sum([], Fa.dom, Fa.cod))
    layers, scan = [], None
    predicted = []
    for box in a.boxes:
        bk = struct.boxkey(box)
        img = ar_keys[struct.boxkey(base_of(box))]
        if bk[5]:
            predicted += [flip(k) for k in reversed(img[3])]
        else:
            predicted += list(img[3])
    got = struct.key(Fa)
    ctx.expect("predicted-image", got == ("A", tykey(F(a.dom)), tykey(F(a.cod)),
                                          tuple(predicted)),
               got=lambda: repr(got)[:1200], **witness)
    if len(a) + len(b) >= 3:
        ctx.mark("cat" + safe_repr(a >> b, 500) + repr(sorted(map(repr, ob.items()))))
    into_monoidal(rng, ctx, a, b)


def into_monoidal(rng, ctx, a, b):
    """
    The `ob_factory=` / `ar_factory=` keywords: a functor from plain arrows into
    monoidal diagrams.  Images are diagrams of that class (also for composites,
    identities, daggers and slices) and the laws hold there.
    """
    cat, mkit = _KITS["cat"].mod, _KITS["monoidal"]
    m = mkit.mod
    ob = {cat.Ob(x): mkit.rand_ty(rng, rng.choice([0, 1, 1, 2])) for x in kits.ATOMS}
    ar = {}
    for box in a.boxes + b.boxes:
        base = base_of(box)
        if base not in ar:
            img = mkit.rand_diagram(rng, rng.randint(0, 1), dom=ob[base.dom], raw=False)
            ar[base] = img >> mkit.box_with_dom(rng, img.cod, cod=ob[base.cod])
    F = cat.Functor(ob, ar, ob_factory=m.Ty, ar_factory=m.Diagram)
    witness = dict(cls="cat->monoidal", style="ob_factory/ar_factory keywords",
                   a=lambda: safe_repr(a, 600), b=lambda: safe_repr(b, 400))

    def law(name, lhs, rhs, **extra):
        try:
            ok = bool(lhs == rhs) and bool(rhs == lhs)\
                and isinstance(lhs, m.Diagram) and isinstance(rhs, m.Diagram)
        except Exception as err:
            ok, extra = False, dict(extra, eq_raised=type(err).__name__)
        ctx.expect("law:" + name, ok, lhs=lambda: safe_repr(lhs, 700),
                   rhs=lambda: safe_repr(rhs, 700),
                   classes=[type(lhs).__name__, type(rhs).__name__],
                   **dict(witness, **extra))
    try:
        Fa, Fb = F(a), F(b)
        law("then", F(a >> b), Fa >> Fb)
        law("identity", F(cat.Id(a.dom)), m.Id(F(a.dom)))
        law("dagger", F(a[::-1]), Fa[::-1])
        n = len(a)
        i = rng.randint(0, n)
        law("slice", F(a[:i]) >> F(a[i:]), Fa, i=i)
        for d, Fd in ((a, Fa), (b, Fb)):
            ok, why = well_typed(Fd)
            ctx.expect("image-well-typed", ok, reason=why,
                       image=lambda: safe_repr(Fd), **witness)
        ctx.count("functors_into_another_category")
    except Exception as err:
        ctx.fail("law:then", exception=type(err).__name__, message=str(err)[:300],
                 **witness)


def monoidal_functor_on_rigid_types(rng, ctx):
    """
    A monoidal.Functor (not a rigid one) applied to diagrams whose types are
    rigid: its object map is keyed by the atomic types as they are, winding
    number included, and is looked up with objects of the diagram's own type
    class.
    """
    from discopy import monoidal
    rkit, mkit = _KITS["rigid-nostruct"], _KITS["monoidal"]
    rigid = rkit.mod
    a = rkit.rand_diagram(rng, rng.randint(1, 4), width=rng.randint(1, 3), raw=False)
    b = rkit.rand_diagram(rng, rng.randint(0, 3), dom=a.cod, raw=False)
    atoms = {}
    for d in (a, b):
        for ty in [d.dom, d.cod] + [x for box in d.boxes for x in (box.dom, box.cod)]:
            for ob_ in ty.objects:
                atoms[rigid.Ty(ob_)] = None
    for t in atoms:
        atoms[t] = mkit.rand_ty(rng, rng.choice([0, 1, 1, 2]))

    def image(ty):
        out = monoidal.Ty()
        for ob_ in ty.objects:
            out = out @ atoms[rigid.Ty(ob_)]
        return out
    ar = {}
    for box in a.boxes + b.boxes:
        base = base_of(box)
        if base not in ar:
            img = mkit.rand_diagram(rng, rng.randint(0, 1), dom=image(base.dom),
                                    raw=False)
            ar[base] = img >> mkit.box_with_dom(rng, img.cod, cod=image(base.cod))
    style = rng.choice(["dict", "callable"])
    F = monoidal.Functor(atoms, ar) if style == "dict"\
        else monoidal.Functor(lambda t: atoms[t], lambda f: ar[f])
    witness = dict(cls="monoidal functor on rigid types", style=style,
                   a=lambda: safe_repr(a, 600), b=lambda: safe_repr(b, 400))
    try:
        Fa, Fb, Fab = F(a), F(b), F(a >> b)
    except Exception as err:
        ctx.fail("law:then", exception=type(err).__name__, message=str(err)[:300],
                 **witness)
        return
    ctx.expect("law:dom-cod", tykey(Fa.dom) == tykey(image(a.dom))
               and tykey(Fa.cod) == tykey(image(a.cod))
               and tykey(F(a.dom)) == tykey(image(a.dom)),
               got=lambda: safe_repr((Fa.dom, Fa.cod)), **witness)
    ctx.expect("law:then", bool(Fab == (Fa >> Fb)), lhs=lambda: safe_repr(Fab, 600),
               rhs=lambda: safe_repr(Fa >> Fb, 600), **witness)
    for Fd in (Fa, Fb):
        ok, why = well_typed(Fd)
        ctx.expect("image-well-typed", ok, reason=why, image=lambda: safe_repr(Fd),
                   **witness)
    ctx.count("monoidal_functors_on_rigid_types")
