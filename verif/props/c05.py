"""
C05 - interchange moves exactly one box past a disconnected neighbour.

Monitors (all evaluated on every (diagram, i, j, left) request)
  same-boundary            result.dom/cod == input's
  same-boxes-moved-i-to-j  the k-th box of the result is the box the move i->j
                           puts there (identity / ==), all others in order
  offsets-match-model      (box, offset) list is one the adjacent-exchange model
                           can reach along the path i -> j
  wiring-preserved         port-level wiring graph identical up to the relabelling
  denotation-preserved     equal matrices under two seeded generic interpretations
  result-well-typed        independent scan (C01's oracle)
  refusal-iff-blocked      InterchangerError exactly when the model is blocked on
                           the way; wired-to-moving-box => refused (wiring model)
  index-error-iff-out-of-range
"""
from verif.gen import kits, provenance
from verif.instrument import safe_repr
from verif.models import meval, wiring
from verif.models import interchange_model as im
from verif.models.typing import well_typed, tykey

ID = "C05"
TECHNIQUE = ("runtime monitoring: reference-model monitors (adjacent-exchange "
             "model, port-level wiring graph, generic matrix semantics) on "
             "every interchange request of seeded workloads")
RULE = ("case = random diagram (2-8 boxes, width 0-5, states/effects/scalars/"
        "wide boxes; monoidal, rigid, tensor, circuit classes) x ALL (i, j, "
        "left) requests when it has <= 6 boxes (sampled above) + out-of-range "
        "indices + a random walk of <= 20 interchanges in lock-step with the "
        "model.  Non-trivial = at least one successful move of distance >= 1 "
        "and one refusal or ambiguous exchange; distinct by diagram repr."
        "  Also: 40% of inputs obtained through subs/lambdify/double dagger/slice/identities (provenance); the same requests on a look-alike twin (same repr, other content or class).")
SIZES = {"quick": (16, 190), "thorough": (16, 5000)}
TIMEOUT = {"quick": 600, "thorough": 5400}
COVER = {"discopy.rewriting:interchange": 0.97}
MIN_EVALS = {"quick": {"offsets-match-model": 20000, "denotation-preserved": 10000,
                       "refusal-iff-blocked": 30000,
                       "index-error-iff-out-of-range": 2000},
             "thorough": {"offsets-match-model": 500000}}
ASSUMPTIONS = [
    "'wired to' is read geometrically (DESIGN section 5): blocked = port "
    "intervals overlap, or a box without outputs (inputs) sits strictly inside "
    "the input (output) span of its neighbour",
    "in the ambiguous exchange (effect directly above a state at the same "
    "offset) the `left` flag decides the placement as documented (default: "
    "the upper box counts as right of the lower one); the model follows that "
    "placement, so a move is expected to be refused exactly when the path "
    "taken under the requested preference is blocked",
    "denotation = matrices under seeded generic interpretations (dims 2/3 per "
    "atomic type name, one generic complex array per box)"]

_KITS = None


def setup(ctx):
    global _KITS
    _KITS = [kits.MonoidalKit(), kits.MonoidalKit(), kits.MonoidalKit(),
             kits.RigidKit(), kits.TensorKit(), kits.CircuitKit(),
             kits.MonoidalKit()]


def moved_order(n, i, j):
    order = list(range(n))
    order.insert(j, order.pop(i))
    return order


def model_path(layers, arity, i, j, left=None):
    """
    Layer tuples the model can reach by moving position i to j with adjacent
    exchanges: (states, blocked_somewhere, blocked_everywhere).

    `left` is the documented preference for the one ambiguous exchange (a box
    without outputs directly above a box without inputs at the same offset):
    by default box0 counts as being to the RIGHT of box1 (the lower box keeps
    its offset, tag "left" of the model), with left=True as being to its LEFT
    (tag "right").  With left=None both placements are followed.
    """
    states = {layers}
    step = 1 if j > i else -1
    blocked_some = False
    for pos in range(i, j, step):
        k = pos if step == 1 else pos - 1
        nxt = set()
        for state in states:
            options = im.exchange(state, arity, k)
            if not options:
                blocked_some = True
            if len(options) == 2 and left is not None:
                wanted = "right" if left else "left"
                options = [o for o in options if o[0] == wanted]
            for _, new in options:
                nxt.add(new)
        if not nxt:
            return set(), True, True
        states = nxt
    return states, blocked_some, False


def denotes_same(ctx, a, b, seeds, dims):
    for seed in seeds:
        interp = meval.Interp(seed, dims=dims)
        ma, mb = meval.evaluate(a, interp), meval.evaluate(b, interp)
        same = meval.close(ma, mb)
        if same is None:
            ctx.count("semantics_skipped_too_wide")
            return None
        if not same:
            return False
    return True


def request(ctx, d, layers, arity, i, j, left, seeds, dims, InterchangerError):
    """ One interchange request, all monitors.  Returns the result or None. """
    n = len(d)
    states, blocked_some, blocked_all = model_path(layers, arity, i, j, left)
    try:
        result = d.interchange(i, j, left=left)
    except InterchangerError:
        ctx.expect("refusal-iff-blocked", blocked_some, kind="refused although "
                   "no exchange on the way is blocked", diagram=lambda: safe_repr(d),
                   offsets=d.offsets, i=i, j=j, left=left)
        ctx.count("refusals_observed")
        return None
    witness = dict(diagram=lambda: safe_repr(d), offsets=d.offsets, i=i, j=j,
                   left=left, result=lambda: safe_repr(result),
                   result_offsets=lambda: result.offsets)
    ctx.expect("refusal-iff-blocked", not blocked_all,
               kind="returned although every path is blocked", **witness)
    # wired => refused, from the wiring model alone
    lo, hi = min(i, j), max(i, j)
    edges = wiring.box_edges(d)
    on_the_way = range(lo, hi + 1)
    wired = any((min(i, k), max(i, k)) in edges for k in on_the_way if k != i)
    ctx.expect("refusal-iff-blocked", not wired,
               kind="moved past a box it shares a wire with", **witness)
    ctx.expect("same-boundary",
               tykey(result.dom) == tykey(d.dom) and tykey(result.cod) == tykey(d.cod)
               and isinstance(result, type(d)),
               result_class=type(result).__module__, **witness)
    order = moved_order(n, i, j)
    rboxes, dboxes = result.boxes, d.boxes
    same_boxes = len(rboxes) == n and all(
        rboxes[k] is dboxes[order[k]] or rboxes[k] == dboxes[order[k]]
        for k in range(n))
    ctx.expect("same-boxes-moved-i-to-j", same_boxes, **witness)
    if not same_boxes or blocked_all:
        return result
    got = im.layers_of(result, order)
    ctx.expect("offsets-match-model", got in states,
               expected=lambda: sorted(states), got=got, **witness)
    ctx.expect("wiring-preserved",
               wiring.wiring(result, relabel=order) == wiring.wiring(d), **witness)
    ok, why = well_typed(result)
    ctx.expect("result-well-typed", ok, reason=why, **witness)
    if ok:
        same = denotes_same(ctx, d, result, seeds, dims)
        if same is not None:
            ctx.expect("denotation-preserved", same, **witness)
    if i != j:
        ctx.count("successful_moves")
        if len(states) > 1:
            ctx.count("ambiguous_exchanges_on_path")
    return result


def lookalike(kit, d):
    """
    A diagram that PRINTS like d without being d: rotation phases differing
    beyond the printed digits (circuits), or the rigid diagram with the same
    names (monoidal).  None when no such twin exists or it prints differently.
    """
    try:
        if kit.name == "circuit":
            boxes, changed = [], False
            for box in d.boxes:
                phase = getattr(box, "phase", None)
                if isinstance(phase, float) and type(box).__name__ in (
                        "Rx", "Rz", "Ry") and not changed:
                    box = type(box)(phase + 1e-7)
                    changed = True
                boxes.append(box)
            twin = type(d)(d.dom, d.cod, boxes, list(d.offsets)) if changed else None
        elif kit.name == "monoidal":
            from discopy import rigid

            def ty(t):
                return rigid.Ty(*[ob.name for ob in t.objects])
            boxes = []
            for box in d.boxes:
                if type(box) is not kit.Box:
                    return None
                boxes.append(rigid.Box(box.name, ty(box.dom), ty(box.cod),
                                       data=box.data, _dagger=box.is_dagger))
            twin = rigid.Diagram(ty(d.dom), ty(d.cod), boxes, list(d.offsets))
        else:
            return None
        if twin is None or repr(twin) != repr(d):
            return None
        return twin
    except Exception:
        return None


def run_case(rng, ctx):
    from discopy.rewriting import InterchangerError
    kit = _KITS[ctx.index % len(_KITS)]
    nboxes = rng.choice([2, 3, 3, 4, 4, 5, 6, 7, 8])
    d = kit.rand_diagram(rng, nboxes, width=rng.choice([0, 1, 2, 3, 4, 5]))
    n = len(d)
    if n < 2:
        return
    if kit.name in ("monoidal", "rigid", "tensor", "circuit") and rng.random() < .4:
        how, d = provenance.via(rng, kit, d)
        ctx.count("input_obtained_through:" + how)
    layers, arity = im.model_of(d)
    from verif.models import struct as _struct
    key_before = repr(_struct.key(d))
    width = max([len(d.dom)] + [len(left) + len(box.cod) + len(right)
                                for left, box, right in d.layers])
    dims = (2, 3) if width <= 5 else (2,)
    seeds = ("a{}".format(ctx.index), "b{}".format(ctx.index))
    pairs = [(i, j) for i in range(n) for j in range(n)]
    if n > 6:
        pairs = [pairs[rng.randrange(len(pairs))] for _ in range(14)]
    moved = refused = 0
    for i, j in pairs:
        for left in (False, True):
            result = request(ctx, d, layers, arity, i, j, left, seeds, dims,
                             InterchangerError)
            if i == j and result is not None:
                ctx.expect("same-boxes-moved-i-to-j",
                           result is d or result == d, kind="i == j must be a no-op",
                           diagram=lambda: safe_repr(d), i=i, j=j, left=left)
            if result is None:
                refused += 1
            elif i != j:
                moved += 1
    # histories: the same requests on another diagram that prints like d
    twin = lookalike(kit, d)
    if twin is not None:
        tlayers, tarity = im.model_of(twin)
        for i, j in pairs[:12]:
            request(ctx, twin, tlayers, tarity, i, j, rng.random() < .5,
                    seeds[:1], dims, InterchangerError)
        ctx.count("lookalike_twins_interchanged")
    # out-of-range indices: IndexError, nothing else
    for i, j in [(-1, 0), (0, -1), (n, 0), (0, n), (n + 3, n + 3), (-n, 1),
                 (rng.randint(-9, -1), rng.randrange(n)),
                 (rng.randrange(n), rng.randint(n, n + 9))]:
        try:
            d.interchange(i, j, left=rng.random() < .5)
            ctx.fail("index-error-iff-out-of-range", kind="returned a value",
                     diagram=safe_repr(d), i=i, j=j)
        except IndexError:
            ctx.ok("index-error-iff-out-of-range")
        except Exception as err:
            ctx.fail("index-error-iff-out-of-range", kind="raised " + type(err).__name__,
                     diagram=safe_repr(d), i=i, j=j)
    # history: random walk in lock-step with the model
    cur = d
    for _ in range(rng.randint(1, 20)):
        cur_layers, cur_arity = im.model_of(cur)
        i, j = rng.randrange(n), rng.randrange(n)
        if rng.random() < .6:
            j = min(n - 1, max(0, i + rng.choice([-1, 1])))
        result = request(ctx, cur, cur_layers, cur_arity, i, j,
                         rng.random() < .5, seeds[:1], dims, InterchangerError)
        if result is not None:
            ok, _ = well_typed(result)
            if not ok:
                break
            cur = result
    if cur is not d:
        same = denotes_same(ctx, d, cur, seeds[:1], dims)
        if same is not None:
            ctx.expect("denotation-preserved", same, kind="after a random walk",
                       diagram=lambda: safe_repr(d), result=lambda: safe_repr(cur))
    from verif.models import struct
    ctx.expect("operands-unchanged",
               im.model_of(d)[0] == layers and repr(struct.key(d)) == key_before,
               diagram=lambda: safe_repr(d), offsets=lambda: d.offsets)
    if moved and refused:
        ctx.mark(kit.name + safe_repr(d, 600))
    if ctx.index < 30:
        ctx.sample(cls=kit.name, diagram=safe_repr(d, 400), offsets=d.offsets,
                   requests=len(pairs) * 2, moved=moved, refused=refused)
