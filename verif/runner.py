"""
Runner: sharding, seeds, watchdog, verdicts, evidence and replay files.

    ./vcheck C05 --tier quick            # the registered check
    ./vcheck C05 --replay replays/C05/quick-0-3-17.json

A *case* is addressed by (tier, seed, shard, index) and regenerated from
random.Random("<seed>:<property>:<tier>:<shard>:<index>") without replaying its
predecessors.  Every shard is its own subprocess with a wall-clock watchdog;
a shard that times out or crashes makes the run INCONCLUSIVE (exit 2), never
"held" and never "violated".
"""
import argparse
import hashlib
import importlib
import json
import os
import random
import subprocess
import sys
import tempfile
import time
import traceback

HERE = os.path.dirname(os.path.dirname(os.path.abspath(__file__)))
MAX_RECORDED = 400          # violations kept verbatim per shard
MAX_SAMPLES = 3            # samples kept per shard


def jsonable(x, depth=0):
    """ Best-effort conversion of a witness value to JSON. """
    if isinstance(x, (str, int, float, bool)) or x is None:
        return x
    if depth > 6:
        return repr(x)[:2000]
    if isinstance(x, dict):
        return {str(k): jsonable(v, depth + 1) for k, v in x.items()}
    if isinstance(x, (list, tuple)):
        return [jsonable(v, depth + 1) for v in x]
    try:
        return repr(x)[:4000]
    except Exception as err:                     # repr itself may be broken
        return "<repr failed: {}>".format(type(err).__name__)


class Ctx:
    """ What a property module sees: counters, verdict sinks, samples. """
    def __init__(self, pid, tier, seed, shard, nshards):
        self.pid, self.tier, self.seed = pid, tier, seed
        self.shard, self.nshards = shard, nshards
        self.index = None
        self.monitors = {}        # monitor -> evaluations
        self.failed = {}          # monitor -> failures
        self.violations = []      # recorded verbatim (capped)
        self.counters = {}
        self.refusals = {}
        self.nontrivial = set()
        self._marked = set()
        self.samples = []
        self.cases = 0
        self.known = []           # known-finding entries for this property
        self.predicates = {}
        self.absorbed = {}        # key -> count
        self.absorbed_examples = {}
        self.unrecorded = 0

    # -- verdict sinks ----------------------------------------------------
    def ok(self, monitor, n=1):
        self.monitors[monitor] = self.monitors.get(monitor, 0) + n

    def fail(self, monitor, **witness):
        self.monitors[monitor] = self.monitors.get(monitor, 0) + 1
        self.failed[monitor] = self.failed.get(monitor, 0) + 1
        from verif import findings
        witness = {k: (v() if callable(v) else v) for k, v in witness.items()}
        violation = {
            "monitor": monitor,
            "case": {"tier": self.tier, "seed": self.seed,
                     "shard": self.shard, "nshards": self.nshards,
                     "index": self.index},
            "witness": jsonable(witness)}
        key = findings.classify(self.known, violation, self.predicates)
        if key is not None:
            self.absorbed[key] = self.absorbed.get(key, 0) + 1
            self.absorbed_examples.setdefault(key, violation)
        elif len(self.violations) < MAX_RECORDED:
            self.violations.append(violation)
        else:
            self.unrecorded += 1

    def expect(self, monitor, cond, **witness):
        if cond:
            self.ok(monitor)
        else:
            self.fail(monitor, **witness)
        return bool(cond)

    # -- bookkeeping --------------------------------------------------------
    def count(self, name, n=1):
        self.counters[name] = self.counters.get(name, 0) + n

    def refuse(self, kind):
        self.refusals[kind] = self.refusals.get(kind, 0) + 1

    def mark(self, key):
        """ The current case is non-trivial; `key` identifies it. """
        if not isinstance(key, str):
            key = repr(key)
        if self.index in self._marked:
            return            # one case counts once, whatever it marks
        self._marked.add(self.index)
        self.nontrivial.add(hashlib.md5(key.encode()).hexdigest()[:16])

    def sample(self, **desc):
        if len(self.samples) < MAX_SAMPLES:
            self.samples.append(jsonable(dict(
                desc, case=[self.tier, self.seed, self.shard, self.index])))

    def call(self, fn, *args, **kwargs):
        """ Returns (value, None) or (None, exception). """
        try:
            return fn(*args, **kwargs), None
        except Exception as err:
            return None, err


def case_rng(pid, tier, seed, shard, index):
    return random.Random("{}:{}:{}:{}:{}".format(seed, pid, tier, shard, index))


def load_prop(pid):
    return importlib.import_module("verif.props." + pid.lower())


def run_one_case(mod, ctx, index):
    ctx.index = index
    rng = case_rng(ctx.pid, ctx.tier, ctx.seed, ctx.shard, index)
    ctx.cases += 1
    try:
        mod.run_case(rng, ctx)
    except Exception as err:
        tb = traceback.extract_tb(err.__traceback__)
        where = ["{}:{}:{}".format(os.path.basename(f.filename), f.lineno, f.name)
                 for f in tb][-6:]
        in_lib = any("/discopy/" in f.filename for f in tb)
        ctx.fail("uncaught-exception", exception=type(err).__name__,
                 message=str(err)[:500], where=where, raised_in_library=in_lib)
    l1 = getattr(ctx, "l1", None)
    if l1 is not None:
        l1.end_of_case()


def worker(args):
    from verif import instrument
    mod = load_prop(args.prop)
    from verif import findings
    ctx = Ctx(args.prop, args.tier, args.seed, args.shard, args.nshards)
    ctx.known = findings.load(mod.ID)
    ctx.predicates = getattr(mod, "PREDICATES", {})
    cover = instrument.Coverage(getattr(mod, "COVER", {}))
    cover.start()
    l1 = None
    if getattr(mod, "L1", True):
        l1 = instrument.ConstructorMonitor(ctx, violate=getattr(mod, "L1_VIOLATES", False))
        l1.arm()
        ctx.l1 = l1
    if hasattr(mod, "setup"):
        mod.setup(ctx)
    t0 = time.time()
    if args.index is not None:
        run_one_case(mod, ctx, args.index)
    else:
        ncases = mod.SIZES[args.tier][1]
        budget = getattr(mod, "SHARD_SECONDS", {}).get(args.tier)
        for index in range(ncases):
            run_one_case(mod, ctx, index)
            if budget and time.time() - t0 > budget:
                ctx.count("stopped_by_soft_budget")
                break
    if l1 is not None:
        l1.disarm()
    cover.stop()
    out = {
        "shard": args.shard, "cases": ctx.cases, "monitors": ctx.monitors,
        "failed": ctx.failed, "violations": ctx.violations,
        "absorbed": ctx.absorbed, "unrecorded": ctx.unrecorded,
        "absorbed_examples": ctx.absorbed_examples,
        "counters": ctx.counters, "refusals": ctx.refusals,
        "nontrivial": sorted(ctx.nontrivial), "samples": ctx.samples,
        "coverage": cover.report(), "wall_s": time.time() - t0,
        "l1": l1.report() if l1 is not None else None}
    with open(args.out, "w") as f:
        json.dump(out, f)
    return 0


def env_for_children():
    env = dict(os.environ)
    repo = env.get("VERIF_REPO", "/repo")
    env["PYTHONPATH"] = os.pathsep.join([repo, HERE])
    env.setdefault("PYTHONDONTWRITEBYTECODE", "1")
    env["PYTHONHASHSEED"] = "0"
    env["MPLBACKEND"] = "Agg"
    env["DISCOPY_VERIF"] = "1"
    env.setdefault("OMP_NUM_THREADS", "1")
    env.setdefault("OPENBLAS_NUM_THREADS", "1")
    env.setdefault("MKL_NUM_THREADS", "1")
    return env


def merge(results):
    tot = {"cases": 0, "monitors": {}, "failed": {}, "violations": [],
           "absorbed": {}, "unrecorded": 0, "absorbed_examples": {},
           "counters": {}, "refusals": {}, "nontrivial": set(), "samples": [],
           "coverage": {}, "l1": {}}
    for res in results:
        tot["cases"] += res["cases"]
        tot["unrecorded"] += res.get("unrecorded", 0)
        for k, v in res.get("absorbed_examples", {}).items():
            tot["absorbed_examples"].setdefault(k, v)
        for key in ("monitors", "failed", "counters", "refusals", "absorbed"):
            for k, v in res[key].items():
                tot[key][k] = tot[key].get(k, 0) + v
        tot["violations"] += res["violations"]
        tot["nontrivial"].update(res["nontrivial"])
        tot["samples"] += res["samples"][:1 if len(results) > 4 else 3]
        for fn, rep in res["coverage"].items():
            cur = tot["coverage"].setdefault(
                fn, {"lines": rep["lines"], "hit": set(), "missing_anchor":
                     rep.get("missing_anchor", False)})
            cur["hit"].update(rep["hit"])
        if res.get("l1"):
            for k, v in res["l1"].items():
                if isinstance(v, dict):
                    d = tot["l1"].setdefault(k, {})
                    for kk, vv in v.items():
                        d[kk] = d.get(kk, 0) + vv
                else:
                    tot["l1"][k] = tot["l1"].get(k, 0) + v
    return tot


def write_replay(pid, violation):
    case = violation["case"]
    directory = os.path.join(os.environ.get(
        "VERIF_REPLAY_DIR", os.path.join(HERE, "replays")), pid)
    os.makedirs(directory, exist_ok=True)
    path = os.path.join(directory, "{}-{}-{}-{}.json".format(
        case["tier"], case["seed"], case["shard"], case["index"]))
    with open(path, "w") as f:
        json.dump(dict(violation, property=pid), f, indent=1)
    return os.path.relpath(path, HERE) if path.startswith(HERE) else path


def controller(args):
    from verif import findings
    t0 = time.time()
    mod = load_prop(args.prop)
    pid = mod.ID
    nshards, ncases = mod.SIZES[args.tier]
    if args.shards:
        nshards = args.shards
    timeout = getattr(mod, "TIMEOUT", {}).get(
        args.tier, 900 if args.tier == "quick" else 5400)
    env = env_for_children()
    tmpdir = tempfile.mkdtemp(prefix="verif-{}-".format(pid))
    procs, results, inconclusive = [], [], []
    try:
        max_par = int(os.environ.get("VERIF_JOBS", "16"))
        pending = list(range(nshards))
        running = {}
        while pending or running:
            while pending and len(running) < max_par:
                shard = pending.pop(0)
                out = os.path.join(tmpdir, "shard{}.json".format(shard))
                log = open(os.path.join(tmpdir, "shard{}.log".format(shard)), "w")
                cmd = [sys.executable, "-X", "faulthandler", "-m",
                       "verif.runner", pid, "--worker", "--tier", args.tier,
                       "--seed", str(args.seed), "--shard", str(shard),
                       "--nshards", str(nshards), "--out", out]
                proc = subprocess.Popen(cmd, env=env, cwd=HERE, stdout=log,
                                        stderr=subprocess.STDOUT)
                running[shard] = (proc, out, log, time.time())
            time.sleep(0.05)
            for shard, (proc, out, log, start) in list(running.items()):
                code = proc.poll()
                if code is None:
                    if time.time() - start > timeout:
                        proc.kill()
                        proc.wait()
                        log.close()
                        inconclusive.append(
                            "shard {} exceeded the {} s watchdog".format(
                                shard, timeout))
                        del running[shard]
                    continue
                log.close()
                del running[shard]
                if code != 0 or not os.path.exists(out):
                    tail = open(log.name).read()[-1500:]
                    inconclusive.append(
                        "shard {} crashed (exit {}): {}".format(
                            shard, code, tail))
                    continue
                with open(out) as f:
                    results.append(json.load(f))
    finally:
        for name in os.listdir(tmpdir):
            os.remove(os.path.join(tmpdir, name))
        os.rmdir(tmpdir)

    tot = merge(results)
    # -- violations were classified in the workers ---------------------------
    known = findings.load(pid)
    absorbed, unlisted = tot["absorbed"], tot["violations"]
    # -- coverage gate --------------------------------------------------------
    cover_report, cover_short = {}, []
    for fn, rep in tot["coverage"].items():
        lines, hit = rep["lines"], sorted(rep["hit"])
        need = getattr(mod, "COVER", {}).get(fn, 0)
        frac = (len(hit) / len(lines)) if lines else 0.0
        cover_report[fn] = {
            "executable_lines": len(lines), "hit": len(hit),
            "fraction": round(frac, 3), "required": need,
            "missed_lines": [x for x in lines if x not in rep["hit"]][:40]}
        if rep.get("missing_anchor"):
            cover_report[fn]["note"] = "anchor not found in this tree; gate skipped"
        elif frac + 1e-9 < need:
            cover_short.append("{} covered {:.0%} < {:.0%}".format(fn, frac, need))
    for monitor, need in getattr(mod, "MIN_EVALS", {}).get(args.tier, {}).items():
        got = tot["monitors"].get(monitor, 0) + tot["counters"].get(monitor, 0)
        if got < need:
            cover_short.append("monitor {} evaluated {} < {} times".format(
                monitor, got, need))
    if not results:
        inconclusive.append("no shard produced a result")
    inconclusive += cover_short
    # -- evidence -------------------------------------------------------------
    wall = time.time() - t0
    evidence = {
        "property_id": pid, "tier": args.tier, "seed": args.seed,
        "level": "exploration",
        "coverage": {
            "evaluations": tot["cases"],
            "distinct_nontrivial": len(tot["nontrivial"]),
            "rule": mod.RULE,
            "samples": tot["samples"][:8] or ["<none>"],
            "exhaustive": False,
            "monitor_evaluations": tot["monitors"],
            "monitor_failures": tot["failed"],
            "counters": tot["counters"],
            "refusals_allowed_by_statement": tot["refusals"],
            "anchored_code_coverage": cover_report,
            "constructor_monitor": tot["l1"],
            "shards": {"requested": nshards, "completed": len(results)},
            "known_findings_absorbed": absorbed,
            "known_finding_examples": tot["absorbed_examples"],
            "inconclusive_reasons": inconclusive,
        },
        "assumptions": getattr(mod, "ASSUMPTIONS", []),
        "wall_s": round(wall, 2),
        "violations": len(unlisted) + tot["unrecorded"],
    }
    evidence_dir = os.environ.get(
        "VERIF_EVIDENCE_DIR", os.path.join(HERE, "evidence"))
    os.makedirs(evidence_dir, exist_ok=True)
    path = os.path.join(evidence_dir, pid + ".json")
    with open(path + ".tmp", "w") as f:
        json.dump(evidence, f, indent=1, sort_keys=True)
    os.replace(path + ".tmp", path)
    # -- verdict --------------------------------------------------------------
    print("property={} tier={} seed={} cases={} distinct_nontrivial={} "
          "monitor_evals={} wall={:.1f}s".format(
              pid, args.tier, args.seed, tot["cases"], len(tot["nontrivial"]),
              sum(tot["monitors"].values()), wall))
    for key, n in sorted(absorbed.items()):
        print("KNOWN-FINDING: property={} {} ({} occurrences this run; {})".format(
            pid, key, n, findings.describe(known, key)))
    if unlisted:
        seen = set()
        for violation in unlisted:
            path = write_replay(pid, violation)
            if violation["monitor"] in seen:
                continue     # one line per monitor; every replay is written
            seen.add(violation["monitor"])
            print("VIOLATION property={} replay={}".format(pid, path))
            print("  monitor={} witness={}".format(
                violation["monitor"], json.dumps(violation["witness"])[:600]))
        return 1
    if inconclusive:
        for reason in inconclusive:
            print("INCONCLUSIVE property={} {}".format(pid, reason))
        return 2
    return 0


def replay(args):
    with open(args.replay) as f:
        violation = json.load(f)
    case = violation["case"]
    pid = violation.get("property", args.prop)
    from verif import instrument
    mod = load_prop(pid)
    ctx = Ctx(pid, case["tier"], case["seed"], case["shard"], case["nshards"])
    l1 = None
    if getattr(mod, "L1", True):
        l1 = instrument.ConstructorMonitor(ctx, violate=getattr(mod, "L1_VIOLATES", False))
        l1.arm()
        ctx.l1 = l1
    if hasattr(mod, "setup"):
        mod.setup(ctx)
    run_one_case(mod, ctx, case["index"])
    print(json.dumps({"monitors": ctx.monitors, "failed": ctx.failed,
                      "violations": ctx.violations}, indent=1))
    from verif import findings
    known = findings.load(pid)
    bad = [v for v in ctx.violations
           if findings.classify(known, v, getattr(mod, 'PREDICATES', {})) is None]
    if bad:
        print("VIOLATION property={} replay={}".format(pid, args.replay))
        return 1
    return 0


def main(argv=None):
    parser = argparse.ArgumentParser()
    parser.add_argument("prop")
    parser.add_argument("--tier", default=os.environ.get("VERIF_TIER", "quick"),
                        choices=["quick", "thorough"])
    parser.add_argument("--seed", type=int,
                        default=int(os.environ.get("VERIF_SEED", "0")))
    parser.add_argument("--replay")
    parser.add_argument("--shards", type=int)
    parser.add_argument("--worker", action="store_true")
    parser.add_argument("--shard", type=int, default=0)
    parser.add_argument("--nshards", type=int, default=1)
    parser.add_argument("--index", type=int)
    parser.add_argument("--out")
    args = parser.parse_args(argv)
    args.prop = args.prop.upper()
    if args.worker:
        return worker(args)
    if args.replay:
        return replay(args)
    return controller(args)


if __name__ == "__main__":
    sys.exit(main())
