"""
Input provenance: the same diagram value obtained through another public route.

The properties quantify over all diagrams, whatever operation produced them.
A diagram that came out of `subs`, `lambdify`, a double dagger or a slice of a
longer diagram carries whatever redundant state (layers, caches, attributes)
that operation left on it, which a freshly generated diagram never does.
"""


def symbolic_twin(kit, d):
    """ (d with one plain box carrying a sympy symbol, symbol) or None. """
    import sympy
    phi = sympy.Symbol("phi_prov")
    boxes = d.boxes
    for k, box in enumerate(boxes):
        if type(box) is not kit.Box or getattr(box, "is_dagger", False):
            continue
        if getattr(box, "data", None) not in (None, 1, 0.5):
            continue
        try:
            sym = kit.Box(box.name, box.dom, box.cod, data=phi)
        except Exception:
            return None
        twin = type(d)(d.dom, d.cod, boxes[:k] + [sym] + boxes[k + 1:],
                       list(d.offsets))
        return twin, phi
    return None


def via(rng, kit, d, routes=None):
    """ (how, diagram).  Falls back to ("generated", d) when a route does not apply. """
    routes = routes or ["subs", "lambdify", "double-dagger", "slice-of-longer",
                        "composed-with-identities"]
    how = routes[rng.randrange(len(routes))]
    try:
        if how in ("subs", "lambdify") and hasattr(kit, "Box"):
            made = symbolic_twin(kit, d)
            if made is not None:
                twin, phi = made
                value = rng.choice([1, 2, 0.5])
                out = twin.subs(phi, value) if how == "subs"\
                    else twin.lambdify(phi)(value)
                if len(out) == len(d):
                    return how, out
        elif how == "double-dagger":
            out = d[::-1][::-1]
            if out == d:
                return how, out
        elif how == "slice-of-longer" and len(d):
            tail = kit.rand_diagram(rng, 1, dom=d.cod)
            out = (d >> tail)[:len(d)]
            if out == d:
                return how, out
        elif how == "composed-with-identities":
            out = kit.id(d.dom) >> d >> kit.id(d.cod)
            if out == d:
                return how, out
    except Exception:
        pass
    return "generated", d
