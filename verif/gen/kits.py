"""
Seeded workload generators, one "kit" per diagram class.

A kit knows how to draw random types, random boxes with a prescribed domain,
and identities of its class; `rand_diagram` grows a diagram layer by layer on
top of that.  Nothing here iterates over sets or dicts of hashed objects.
"""
import numpy

ATOMS = ["x", "y", "z", "w"]
LETTERS = ["f", "g", "h", "k", "m"]


class Kit:
    name = "abstract"
    max_span = 3

    # -- to be provided -----------------------------------------------------
    def atom(self, rng):
        raise NotImplementedError

    def unit(self):
        raise NotImplementedError

    def id(self, ty):
        raise NotImplementedError

    def box_with_dom(self, rng, dom):
        raise NotImplementedError

    # -- generic ------------------------------------------------------------
    def rand_ty(self, rng, n):
        ty = self.unit()
        for _ in range(n):
            ty = ty @ self.atom(rng)
        return ty

    def rand_layer(self, rng, scan):
        """ Returns (offset, box) applicable to `scan`. """
        off = rng.randint(0, len(scan))
        span = rng.randint(0, min(self.max_span, len(scan) - off))
        return off, self.box_with_dom(rng, scan[off:off + span])

    def rand_diagram(self, rng, nboxes, dom=None, width=3, raw=None):
        """ Random diagram with `nboxes` boxes starting at `dom`. """
        if dom is None:
            dom = self.rand_ty(rng, rng.randint(0, width))
        raw = rng.random() < .3 if raw is None else raw
        diagram, scan, boxes, offsets = self.id(dom), dom, [], []
        for _ in range(nboxes):
            off, box = self.rand_layer(rng, scan)
            if len(scan) - len(box.dom) + len(box.cod) > width + 3:
                off, box = self.shrinking_layer(rng, scan)
            span = len(box.dom)
            if raw:
                boxes.append(box)
                offsets.append(off)
            else:
                diagram = diagram >> self.id(scan[:off]) @ box\
                    @ self.id(scan[off + span:])
            scan = scan[:off] @ box.cod @ scan[off + span:]
        if raw:
            return self.Diagram(dom, scan, boxes, offsets)
        return diagram

    def shrinking_layer(self, rng, scan):
        return self.rand_layer(rng, scan)


class MonoidalKit(Kit):
    name = "monoidal"

    def __init__(self):
        from discopy import monoidal
        self.mod = monoidal
        self.Diagram, self.Ty, self.Box = \
            monoidal.Diagram, monoidal.Ty, monoidal.Box

    def atom(self, rng):
        return self.Ty(rng.choice(ATOMS))

    def unit(self):
        return self.Ty()

    def id(self, ty):
        return self.mod.Id(ty)

    def rand_cod(self, rng, dom):
        return self.rand_ty(rng, rng.choice([0, 1, 1, 1, 2, 2, 3]))

    def data(self, rng):
        return rng.choice([None, None, None, 1, [1, 2], {"a": (0, 1)}, 0.5])

    def box_with_dom(self, rng, dom, cod=None):
        cod = self.rand_cod(rng, dom) if cod is None else cod
        name = rng.choice(LETTERS)
        data = self.data(rng)
        if rng.random() < .25:
            return self.make_box(name, cod, dom, data).dagger()
        return self.make_box(name, dom, cod, data)

    def make_box(self, name, dom, cod, data):
        if data is None:
            return self.Box(name, dom, cod)
        return self.Box(name, dom, cod, data=data)

    def shrinking_layer(self, rng, scan):
        off = rng.randint(0, max(0, len(scan) - 2))
        span = min(len(scan) - off, rng.randint(1, self.max_span))
        dom = scan[off:off + span]
        return off, self.box_with_dom(
            rng, dom, cod=self.rand_ty(rng, rng.randint(0, 1)))


class RigidKit(MonoidalKit):
    name = "rigid"

    def __init__(self, zmax=2, structural=True):
        from discopy import rigid
        self.mod = rigid
        self.Diagram, self.Ty, self.Box = rigid.Diagram, rigid.Ty, rigid.Box
        self.zmax, self.structural = zmax, structural

    def atom(self, rng):
        z = rng.choice([0, 0, 0, 1, -1, 2, -2])
        z = max(-self.zmax, min(self.zmax, z))
        return self.Ty(self.mod.Ob(rng.choice(ATOMS[:3]), z))

    def rand_layer(self, rng, scan):
        if self.structural and rng.random() < .3:
            layer = self.structural_layer(rng, scan)
            if layer is not None:
                return layer
        return super().rand_layer(rng, scan)

    def structural_layer(self, rng, scan):
        mod = self.mod
        kind = rng.choice(["cup", "cap", "swap"])
        if kind == "cup":
            spots = [i for i in range(len(scan) - 1)
                     if scan[i:i + 1].r == scan[i + 1:i + 2]
                     or scan[i:i + 1] == scan[i + 1:i + 2].r]
            if spots:
                i = rng.choice(spots)
                return i, mod.Cup(scan[i:i + 1], scan[i + 1:i + 2])
        if kind == "cap":
            t = self.atom(rng)
            off = rng.randint(0, len(scan))
            return off, (mod.Cap(t, t.l) if rng.random() < .5
                         else mod.Cap(t, t.r))
        if kind == "swap" and len(scan) >= 2:
            i = rng.randint(0, len(scan) - 2)
            return i, mod.Swap(scan[i:i + 1], scan[i + 1:i + 2])
        return None


class WordKit(RigidKit):
    """
    Rigid diagrams whose boxes are, often, grammar words: box subclasses whose
    constructor lists its arguments in another order (name, cod, dom=None).
    """
    def __init__(self, zmax=2):
        super().__init__(zmax=zmax)
        from discopy.grammar import pregroup, cfg
        self.words = [pregroup.Word, pregroup.Word, cfg.Word]

    def make_box(self, name, dom, cod, data):
        if len(cod) and (not len(dom) or data is None and name in "fgh"):
            cls = self.words[(len(name) + len(cod) + len(dom)) % 3]
            if cls.__module__.endswith("cfg") and not isinstance(
                    cod, cls.__init__.__globals__["Ty"]):
                cls = self.words[0]
            if len(dom):
                return cls(name, cod, dom=dom, data=data)
            return cls(name, cod, data=data)
        return super().make_box(name, dom, cod, data)


class TensorKit(MonoidalKit):
    """ tensor.Diagram over Dim types with numeric array boxes. """
    name = "tensor"
    max_span = 2

    def __init__(self):
        from discopy import tensor
        self.mod = tensor
        self.Diagram, self.Ty, self.Box = tensor.Diagram, tensor.Dim, tensor.Box

    def atom(self, rng):
        return self.Ty(rng.choice([2, 3, 2, 4]))

    def unit(self):
        return self.Ty(1)

    def id(self, ty):
        return self.mod.Id(ty)

    def rand_cod(self, rng, dom):
        return self.rand_ty(rng, rng.choice([0, 1, 1, 2]))

    def dim(self, ty):
        """ tensor.Diagram types degrade to rigid.Ty: rebuild the Dim. """
        return self.Ty(*[ob.name for ob in ty.objects])

    def box_with_dom(self, rng, dom, cod=None):
        cod = self.rand_cod(rng, dom) if cod is None else cod
        dom, cod = self.dim(dom), self.dim(cod)
        size = 1
        for ob in dom.objects + cod.objects:
            size *= ob.name
        kind = rng.random()
        if kind < .4:
            data = [rng.randint(-3, 3) for _ in range(size)]
        elif kind < .8:
            data = [complex(round(rng.uniform(-1, 1), 3),
                            round(rng.uniform(-1, 1), 3)) for _ in range(size)]
        else:
            data = [round(rng.uniform(-2, 2), 3) for _ in range(size)]
        name = rng.choice(LETTERS)
        if rng.random() < .2:
            return self.Box(name, cod, dom, data).dagger()
        return self.Box(name, dom, cod, data)

    def rand_layer(self, rng, scan):
        r = rng.random()
        if r < .12 and len(scan) >= 2:
            i = rng.randint(0, len(scan) - 2)
            return i, self.mod.Swap(scan[i:i + 1], scan[i + 1:i + 2])
        if r < .2 and len(scan) >= 1:
            i = rng.randint(0, len(scan) - 1)
            return i, self.mod.Spider(
                1, rng.randint(0, 2), self.Ty(scan.objects[i].name))
        return super().rand_layer(rng, scan)


class CircuitKit(Kit):
    """ Circuits over bits and qubits. """
    name = "circuit"

    def __init__(self, pure=False, symbols=None):
        from discopy.quantum import circuit, gates
        self.mod, self.gates = circuit, gates
        self.Diagram, self.Ty = circuit.Circuit, circuit.Ty
        self.pure = pure
        self.bit, self.qubit = circuit.bit, circuit.qubit

    def atom(self, rng):
        if self.pure:
            return self.qubit
        return self.qubit if rng.random() < .65 else self.bit

    def unit(self):
        return self.Ty()

    def id(self, ty):
        return self.mod.Id(ty)

    def phase(self, rng):
        return rng.choice([0.25, -0.5, 0.125, 1.0, 0.3, -1.7, 0.7853, 0])

    def pool(self, rng):
        g = self.gates
        pure = [
            g.H, g.S, g.T, g.X, g.Y, g.Z, g.CX, g.CZ, g.SWAP,
            g.Rx(self.phase(rng)), g.Ry(self.phase(rng)),
            g.Rz(self.phase(rng)), g.CRz(self.phase(rng)),
            g.CRx(self.phase(rng)), g.CU1(self.phase(rng)),
            g.Ket(rng.randint(0, 1)), g.Bra(rng.randint(0, 1)),
            g.Ket(rng.randint(0, 1), rng.randint(0, 1)),
            g.S.dagger(), g.T.dagger(), g.Controlled(g.Z),
            g.scalar(complex(round(rng.uniform(-1, 1), 2),
                             round(rng.uniform(-1, 1), 2))),
            g.sqrt(2)]
        if self.pure:
            return pure
        c = self.mod
        mixed = [
            c.Measure(), c.Measure(destructive=False), c.Encode(),
            c.Encode(constructive=False), c.Discard(), c.Discard(self.bit),
            c.MixedState(), c.MixedState(self.bit), g.Copy(), g.Match(),
            g.Bits(rng.randint(0, 1)), g.Bits(rng.randint(0, 1)).dagger(),
            c.Swap(self.bit, self.qubit), c.Swap(self.qubit, self.bit),
            c.Swap(self.bit, self.bit),
            g.ClassicalGate('c', 1, 1, [.25, .75, .5, .5]),
            g.scalar(round(rng.uniform(0, 2), 2), is_mixed=True),
            # every flag combination (their daggers carry the flags over) and
            # a two-wire instance
            c.Measure(override_bits=True), c.Encode(reset_bits=True),
            c.Measure(destructive=False, override_bits=True),
            c.Encode(constructive=False, reset_bits=True),
            c.Measure(2), c.Encode(2, reset_bits=True)]
        return pure + mixed

    def rand_layer(self, rng, scan):
        pool = self.pool(rng)
        for _ in range(30):
            box = rng.choice(pool)
            n = len(box.dom)
            spots = [i for i in range(len(scan) - n + 1)
                     if scan[i:i + n] == box.dom]
            if spots:
                return rng.choice(spots), box
        return rng.randint(0, len(scan)), self.gates.sqrt(2)

    def box_with_dom(self, rng, dom):
        raise NotImplementedError


class ZXKit(Kit):
    name = "zx"

    def __init__(self):
        from discopy.quantum import zx
        from discopy.rigid import PRO
        self.mod, self.PRO = zx, PRO
        self.Diagram, self.Ty = zx.Diagram, PRO

    def atom(self, rng):
        return self.PRO(1)

    def unit(self):
        return self.PRO(0)

    def id(self, ty):
        return self.mod.Id(len(ty))

    def phase(self, rng):
        return rng.choice([0, 0, 0.25, 0.5, -0.25, 0.75, 0.3, 1.1])

    def box_with_dom(self, rng, dom):
        zx = self.mod
        n = len(dom)
        r = rng.random()
        if n == 0 and r < .25:
            return zx.scalar(complex(round(rng.uniform(-1, 1), 2),
                                     round(rng.uniform(-1, 1), 2)))
        if n == 1 and r < .2:
            return zx.H
        if n == 2 and r < .2:
            return zx.SWAP
        cls = zx.Z if rng.random() < .5 else zx.X
        return cls(n, rng.choice([0, 1, 1, 2, 2, 3]), self.phase(rng))


class BiclosedKit(MonoidalKit):
    name = "biclosed"

    def __init__(self):
        from discopy import biclosed
        self.mod = biclosed
        self.Diagram, self.Ty, self.Box = \
            biclosed.Diagram, biclosed.Ty, biclosed.Box

    def slash(self, rng, depth):
        if depth == 0 or rng.random() < .4:
            return self.Ty(rng.choice(ATOMS[:3]))
        left = self.slash(rng, depth - 1)
        right = self.slash(rng, depth - 1)
        return (left << right) if rng.random() < .5 else (left >> right)

    def atom(self, rng):
        return self.slash(rng, rng.choice([0, 0, 1, 2]))

    def data(self, rng):
        return None


class CartesianKit(Kit):
    name = "cartesian"

    def __init__(self):
        from discopy import cartesian
        from discopy.rigid import PRO
        self.mod, self.PRO = cartesian, PRO
        self.Diagram, self.Ty = cartesian.Diagram, PRO
        self.counter = 0

    def atom(self, rng):
        return self.PRO(1)

    def unit(self):
        return self.PRO(0)

    def id(self, ty):
        return self.mod.Id(len(ty))

    def box_with_dom(self, rng, dom, cod=None):
        n = len(dom)
        m = rng.choice([0, 1, 1, 2, 3]) if cod is None else cod
        name = "{}{}{}".format(rng.choice(LETTERS), n, m)
        return self.mod.Box(name, n, m, token_function(name, m))

    def rand_diagram(self, rng, nboxes, dom=None, width=3, raw=None):
        if dom is None:
            dom = self.PRO(rng.randint(0, width))
        diagram, scan = self.id(dom), len(dom)
        for _ in range(nboxes):
            off = rng.randint(0, scan)
            span = rng.randint(0, min(3, scan - off))
            r = rng.random()
            if r < .1 and scan - off >= 2:
                box, span = self.mod.SWAP, 2
            elif r < .2 and scan - off >= 1:
                box, span = self.mod.COPY, 1
            elif r < .25 and scan - off >= 1:
                box, span = self.mod.DISCARD, 1
            else:
                box = self.box_with_dom(rng, self.PRO(span))
            diagram = diagram >> self.id(self.PRO(off)) @ box\
                @ self.id(self.PRO(scan - off - span))
            scan = scan - span + len(box.cod)
        return diagram


class Token:
    """ Opaque, non-tuple wire value recording how it was produced. """
    __slots__ = ("name", "index", "inputs")

    def __init__(self, name, index, inputs):
        self.name, self.index, self.inputs = name, index, inputs

    def key(self):
        return (self.name, self.index, tuple(
            x.key() if isinstance(x, Token) else x for x in self.inputs))

    def __eq__(self, other):
        return isinstance(other, Token) and self.key() == other.key()

    def __hash__(self):
        return hash(self.key())

    def __repr__(self):
        return "{}#{}({})".format(
            self.name, self.index, ",".join(map(repr, self.inputs)))


def token_function(name, n_out, named=True):
    """
    Function of the documented convention: () / single value / tuple.
    named=False keeps the __name__ every closure made here shares (as lambdas
    built in a loop do): the function's name does not identify it either.
    """
    def function(*xs):
        outs = tuple(Token(name, i, xs) for i in range(n_out))
        return outs[0] if n_out == 1 else outs
    if named:
        function.__name__ = name
    return function


class Pipeline(list):
    """
    A callable object that is FALSY when empty (a list of post-processing
    stages applied after `function`): callables need not be truthy.
    """
    def __init__(self, function, stages=()):
        list.__init__(self, stages)
        self.function = function
        self.__name__ = getattr(function, "__name__", "pipeline")

    def __call__(self, *xs):
        out = self.function(*xs)
        for stage in self:
            out = stage(out)
        return out

    def __repr__(self):
        return "Pipeline({})".format(self.__name__)


class CatKit:
    """ Plain arrows of discopy.cat. """
    name = "cat"

    def __init__(self):
        from discopy import cat
        self.mod = cat

    def ob(self, rng):
        return self.mod.Ob(rng.choice(ATOMS))

    def box(self, rng, dom, cod=None):
        cod = self.ob(rng) if cod is None else cod
        name = rng.choice(LETTERS)
        data = rng.choice([None, None, 1, [1, 2], {"a": 0}])
        if rng.random() < .25:
            box = self.mod.Box(name, cod, dom, data=data) if data is not None\
                else self.mod.Box(name, cod, dom)
            return box.dagger()
        return self.mod.Box(name, dom, cod, data=data) if data is not None\
            else self.mod.Box(name, dom, cod)

    def rand_arrow(self, rng, nboxes, dom=None, raw=None):
        dom = self.ob(rng) if dom is None else dom
        raw = rng.random() < .3 if raw is None else raw
        arrow, scan, boxes = self.mod.Id(dom), dom, []
        for _ in range(nboxes):
            box = self.box(rng, scan)
            if raw:
                boxes.append(box)
            else:
                arrow = arrow >> box
            scan = box.cod
        if raw:
            return self.mod.Arrow(dom, scan, boxes)
        return arrow


def complex_array(rng, shape, seedless=False):
    """ Generic O(1) complex array from the case PRNG. """
    size = int(numpy.prod(shape)) if shape else 1
    values = [complex(rng.uniform(-1, 1), rng.uniform(-1, 1))
              for _ in range(size)]
    return numpy.array(values).reshape(shape or (1,))
