"""
Known-findings classifier.

/verif/known_findings/<property>.json (committed, never written at run time)
lists genuine defects of the pinned tree by *mechanism*.  An entry with
status "known" names a predicate defined in the property module's PREDICATES
dict; a predicate looks only at the monitor that fired and at the witness the
monitor recorded (never at seeds, hashes or random values).  Entries with status
"fixed" document a repaired defect and suppress nothing.
"""
import json
import os

HERE = os.path.dirname(os.path.dirname(os.path.abspath(__file__)))


def load(pid):
    path = os.path.join(HERE, "known_findings", pid + ".json")
    if not os.path.exists(path):
        return []
    with open(path) as f:
        entries = json.load(f)["findings"]
    return [e for e in entries if e["property"] == pid]


def classify(known, violation, predicates):
    for entry in known:
        if entry.get("status") != "known":
            continue
        pred = predicates.get(entry.get("predicate"))
        if pred is None:
            continue
        try:
            if pred(violation["monitor"], violation["witness"]):
                return entry["key"]
        except Exception:
            continue
    return None


def describe(known, key):
    for entry in known:
        if entry["key"] == key:
            return entry.get("what_fails", "")
    return ""
