"""
Known-findings classifier.

known_findings.json (committed, never written at run time) lists genuine
defects of the pinned tree by *mechanism*.  Each entry names a predicate defined
here; a predicate looks only at the monitor that fired and at the witness the
monitor recorded (never at seeds or random values).  `fixed` entries suppress
nothing.
"""
import json
import os

HERE = os.path.dirname(os.path.dirname(os.path.abspath(__file__)))
PREDICATES = {}


def predicate(name):
    def deco(fn):
        PREDICATES[name] = fn
        return fn
    return deco


def load(pid):
    path = os.path.join(HERE, "known_findings.json")
    if not os.path.exists(path):
        return []
    with open(path) as f:
        entries = json.load(f)["findings"]
    return [e for e in entries if e["property"] == pid]


def classify(known, violation):
    for entry in known:
        if entry.get("status") != "known":
            continue
        pred = PREDICATES.get(entry["predicate"])
        if pred is None:
            continue
        try:
            if pred(violation["monitor"], violation["witness"]):
                return entry["key"]
        except Exception:
            continue
    return None


def describe(known, key):
    for entry in known:
        if entry["key"] == key:
            return entry.get("what_fails", "")
    return ""


# ---------------------------------------------------------------------------
# predicates (one per mechanism)
# ---------------------------------------------------------------------------
