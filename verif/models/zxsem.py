"""
Standard interpretation of ZX diagrams (harness-side, numpy only).

Convention: `evaluate(d)` returns the matrix M of shape (2**len(dom), 2**len(cod))
with M[input_index, output_index] (discopy's [input, output] order), leftmost
wire most significant.  pyzx's `to_matrix()` is output x input, i.e. M.T.

  Z(n, m, phase) = |0..0><0..0| + exp(2 pi i phase) |1..1><1..1|
  X(n, m, phase) = H^(x)m  Z(n, m, phase)  H^(x)n       (H normalised)
  H              = (1/sqrt 2) [[1, 1], [1, -1]]
  SWAP, scalar(z) = z
"""
import numpy

HAD = numpy.array([[1, 1], [1, -1]], dtype=complex) / numpy.sqrt(2)


def spider(n, m, phase, colour):
    mat = numpy.zeros((2 ** n, 2 ** m), dtype=complex)
    mat[0, 0] += 1
    mat[2 ** n - 1, 2 ** m - 1] += numpy.exp(2j * numpy.pi * complex(phase))
    if colour == "X":
        hin, hout = numpy.ones((1, 1)), numpy.ones((1, 1))
        for _ in range(n):
            hin = numpy.kron(hin, HAD)
        for _ in range(m):
            hout = numpy.kron(hout, HAD)
        mat = hin @ mat @ hout
    return mat


def box_matrix(box):
    """ (kind, matrix) for a zx box, from its public attributes. """
    cls = type(box).__name__
    n, m = len(box.dom), len(box.cod)
    if cls in ("Z", "X"):
        return spider(n, m, box.phase, cls)
    if cls == "Had" or (box.name == "H" and n == m == 1):
        return HAD
    if cls == "Scalar" or (n == m == 0 and hasattr(box, "data")):
        return numpy.array([[complex(box.data)]])
    raise ValueError("no interpretation for " + repr(box))


def evaluate(diagram):
    n = len(diagram.dom)
    ddom = 2 ** n
    state = numpy.eye(ddom, dtype=complex).reshape([ddom] + [2] * n)
    width = n
    for box, off in zip(diagram.boxes, diagram.offsets):
        if type(box).__name__ == "Swap":
            state = numpy.swapaxes(state, 1 + off, 2 + off)
            continue
        mat = box_matrix(box)
        k, m = len(box.dom), len(box.cod)
        left, right = 2 ** off, 2 ** (width - off - k)
        state = numpy.einsum("dlmr,mn->dlnr",
                             state.reshape(ddom, left, 2 ** k, right), mat)
        width = width - k + m
        state = state.reshape([ddom] + [2] * width)
    return state.reshape(ddom, -1)


def scalar_product(diagram):
    out = 1
    for box in diagram.boxes:
        if len(box.dom) == len(box.cod) == 0 and type(box).__name__ == "Scalar":
            out *= complex(box.data)
    return out


def proportional(a, b, tol=1e-8):
    """ a == c * b for one non-zero c (zero maps only to zero). """
    if a.shape != b.shape:
        return False
    na, nb = numpy.abs(a).max(), numpy.abs(b).max()
    if na < tol or nb < tol:
        return na < tol and nb < tol
    index = numpy.unravel_index(numpy.abs(b).argmax(), b.shape)
    c = a[index] / b[index]
    return abs(c) > tol and numpy.allclose(a, c * b, rtol=tol, atol=tol)
