"""
Generic seeded interpretation of monoidal / rigid diagrams in matrices.

Independent of discopy's tensor module: the running value is a numpy array of
shape (D_dom, d_1, ..., d_n) (one axis per open wire); a box at offset `off`
acts by one reshape + einsum.  Swaps are axis transpositions, cups and caps
the identity tensors (dimension depends on the NAME of the atomic type only,
so a type and its adjoints share it), daggered boxes the conjugate transpose
of the array of their undaggered twin.
"""
import random

import numpy

from verif.models.typing import tykey
from verif.models.struct import datakey


class Interp:
    def __init__(self, seed, dims=(2, 3), weights=None):
        self.seed = seed
        self.dims_pool = dims
        self._dims, self._arrays = {}, {}

    def dim(self, obkey):
        name = obkey[0]
        if name not in self._dims:
            self._dims[name] = random.Random(
                "dim:{}:{}".format(self.seed, repr(name))).choice(self.dims_pool)
        return self._dims[name]

    def dims(self, tk):
        return [self.dim(ob) for ob in tk]

    def size(self, tk):
        out = 1
        for d in self.dims(tk):
            out *= d
        return out

    def array(self, box):
        """ Matrix (prod dom x prod cod) of a generic box. """
        dom, cod = tykey(box.dom), tykey(box.cod)
        name = box.name
        try:
            hash(name)
        except TypeError:
            name = repr(name)
        data = datakey(getattr(box, "data", None))
        if getattr(box, "is_dagger", False):
            base = (name, cod, dom, data)
            return self._generic(base, cod, dom).conj().T
        return self._generic((name, dom, cod, data), dom, cod)

    def _generic(self, key, dom, cod):
        if key not in self._arrays:
            rng = random.Random("box:{}:{}".format(self.seed, repr(key)))
            shape = (self.size(dom), self.size(cod))
            values = [complex(rng.uniform(-1, 1), rng.uniform(-1, 1))
                      for _ in range(shape[0] * shape[1])]
            self._arrays[key] = numpy.array(values).reshape(shape)
        return self._arrays[key]


def kind(box):
    cls = type(box).__name__
    if cls in ("Swap", "Cup", "Cap") and hasattr(box, "left"):
        return cls
    return "Box"


def evaluate(diagram, interp, max_size=1500):
    """
    Matrix (prod dom x prod cod) denoted by `diagram`, or None when an
    intermediate width exceeds `max_size` entries per row.
    """
    scan = list(tykey(diagram.dom))
    ddom = interp.size(scan)
    state = numpy.eye(ddom, dtype=complex).reshape(
        [ddom] + interp.dims(scan))
    for box, off in zip(diagram.boxes, diagram.offsets):
        bdom, bcod = tykey(box.dom), tykey(box.cod)
        n = len(bdom)
        assert tuple(scan[off:off + n]) == bdom, "ill-typed diagram"
        k = kind(box)
        if k == "Swap":
            state = numpy.swapaxes(state, 1 + off, 2 + off)
            scan[off:off + 2] = [scan[off + 1], scan[off]]
            continue
        if k == "Cup":
            d = interp.dim(bdom[0])
            matrix = numpy.eye(d, dtype=complex).reshape(d * d, 1)
        elif k == "Cap":
            d = interp.dim(bcod[0])
            matrix = numpy.eye(d, dtype=complex).reshape(1, d * d)
        elif len(box.boxes) == 1 and box.boxes[0] is box:
            matrix = interp.array(box)
        else:                                   # a diagram used as a box
            matrix = evaluate(box, interp, max_size)
            if matrix is None:
                return None
        left = 1
        for d in state.shape[1:1 + off]:
            left *= d
        right = 1
        for d in state.shape[1 + off + n:]:
            right *= d
        mid = matrix.shape[0]
        state = numpy.einsum(
            "dlmr,mn->dlnr", state.reshape(ddom, left, mid, right), matrix)
        scan[off:off + n] = list(bcod)
        if interp.size(scan) > max_size:
            return None
        state = state.reshape([ddom] + interp.dims(scan))
    assert tuple(scan) == tykey(diagram.cod), "ill-typed diagram"
    return state.reshape(ddom, -1)


def close(a, b, tol=1e-9):
    if a is None or b is None:
        return None
    return a.shape == b.shape and numpy.allclose(a, b, rtol=tol, atol=tol)
