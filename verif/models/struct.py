"""
List-level model of diagrams: a diagram is (dom, cod, [(boxkey, offset)]).

`key(v)` is the structural key of any value of the free categories, computed
from public attributes only.  `then/tensor/dagger/slice_` are the naive
list-level operations that C02 compares the library's results with.
"""
from verif.models.typing import tykey, obkey, is_box


def datakey(data):
    if data is None:
        return None
    if isinstance(data, dict):
        return ("dict", tuple(sorted(
            ((datakey(k), datakey(v)) for k, v in data.items()), key=repr)))
    if isinstance(data, (list, tuple)):
        return (type(data).__name__, tuple(datakey(x) for x in data))
    if isinstance(data, (set, frozenset)):
        return (type(data).__name__, tuple(sorted(map(repr, data))))
    if hasattr(data, "shape") and hasattr(data, "tolist"):
        return ("array", tuple(data.shape), datakey(data.tolist()))
    if isinstance(data, (bool, int, float, complex)):
        return ("num", complex(data))   # 1 == 1.0 == (1+0j) == True for Python
    return (type(data).__name__, repr(data))


def boxkey(box):
    """ Key of a generator. """
    cls = type(box).__name__
    terms = getattr(box, "terms", None)
    if terms is not None and cls == "Sum":
        return ("Sum", tykey(box.dom), tykey(box.cod),
                tuple(key(t) for t in terms))
    inside = getattr(box, "inside", None)
    if inside is not None:
        return ("Bubble", tykey(box.dom), tykey(box.cod), key(inside))
    kind = "Box"
    if cls in ("Swap", "Cup", "Cap") and hasattr(box, "left"):
        kind = cls
    if not is_box(box):            # a diagram used as a box
        return ("Diagram", key(box))
    name = box.name
    try:
        hash(name)
    except TypeError:
        name = repr(name)
    return (kind, name, tykey(box.dom), tykey(box.cod),
            datakey(getattr(box, "data", None)),
            bool(getattr(box, "is_dagger", False)))


def key(v):
    """ Structural key of a type, box, diagram, arrow or sum. """
    cls = type(v).__name__
    if getattr(v, "terms", None) is not None and cls == "Sum":
        return ("Sum", tykey(v.dom), tykey(v.cod), tuple(key(t) for t in v.terms))
    if hasattr(v, "offsets"):
        return ("D", tykey(v.dom), tykey(v.cod),
                tuple((boxkey(b), o) for b, o in zip(v.boxes, v.offsets)))
    if hasattr(v, "boxes"):        # cat.Arrow
        return ("A", tykey(v.dom), tykey(v.cod), tuple(boxkey(b) for b in v.boxes))
    if hasattr(v, "objects"):
        return ("T",) + tykey(v)
    return ("O",) + obkey(v)


# -- list-level operations on ("D", dom, cod, layers) -----------------------

def then(a, b):
    assert a[0] == b[0]
    return (a[0], a[1], b[2], a[3] + b[3])


def tensor(a, b):
    shift = len(a[2])
    return ("D", a[1] + b[1], a[2] + b[2],
            a[3] + tuple((bk, off + shift) for bk, off in b[3]))


def identity(tk, kind="D"):
    return (kind, tk, tk, ())
