"""
Reference models for C18 (grammar front-ends).

Nothing here calls the discopy algorithms under test (eager_parse,
brute_force, CFG.generate, biclosed.Functor, rigid fa/ba/.., cat2ty,
tree2diagram).  Diagrams and types are taken apart through public attributes
(dom, cod, boxes, offsets, name, objects, left, right, z) and every predicate
is recomputed on plain tuples.

Representations
  pregroup / rigid type : tuple of (name, z)
  biclosed type         : tuple of object keys, an object key being
                          ("ob", name) | ("Over", left, right) | ("Under", left, right)
                          with left/right again biclosed type keys
  CCG category          : ("atom", name) | ("/", result, argument) | ("\\", result, argument)
"""


# ---------------------------------------------------------------- rigid types
def rigid_key(ty):
    """ rigid.Ty -> tuple of (name, z). """
    return tuple((ob.name, getattr(ob, "z", 0)) for ob in ty.objects)


def adj_l(key):
    return tuple((name, z - 1) for name, z in reversed(key))


def adj_r(key):
    return tuple((name, z + 1) for name, z in reversed(key))


# ------------------------------------------------------------ pregroup parses
def box_kind(box):
    return type(box).__name__


def pregroup_shape(diagram, words, target):
    """
    Is `diagram` of the shape  words (tensored left to right) >> cups,
    with empty domain, codomain `target`, every cup joining adjacent
    (t, t.r) wires ?  `words` is the list of word boxes that was given.
    Returns (ok, reason, n_words, n_cups).
    """
    boxes, offsets = diagram.boxes, diagram.offsets
    if rigid_key(diagram.dom) != ():
        return False, "domain is not empty", 0, 0
    if rigid_key(diagram.cod) != rigid_key(target):
        return False, "codomain is not the target", 0, 0
    n_words = len(words)
    if len(boxes) < n_words:
        return False, "fewer boxes than words", len(boxes), 0
    for i, word in enumerate(words):
        if boxes[i] is not word and word_key(boxes[i]) != word_key(word):
            return False, "box {} is not word {}".format(i, i), n_words, 0
    scan = ()
    for i in range(n_words):
        if rigid_key(boxes[i].dom) != ():
            return False, "word {} has a domain".format(i), n_words, 0
        if offsets[i] != len(scan):
            return False, "word {} is not tensored on the right of the "\
                "previous ones".format(i), n_words, 0
        scan = scan + rigid_key(boxes[i].cod)
    n_cups = 0
    for i in range(n_words, len(boxes)):
        box, off = boxes[i], offsets[i]
        if box_kind(box) != "Cup":
            return False, "box {} after the words is a {}".format(
                i, box_kind(box)), n_words, n_cups
        bdom = rigid_key(box.dom)
        if len(bdom) != 2 or rigid_key(box.cod) != ():
            return False, "cup {} is not of type t @ t' -> 1".format(i),\
                n_words, n_cups
        if not isinstance(off, int) or off < 0 or off + 2 > len(scan):
            return False, "cup {} is out of range".format(i), n_words, n_cups
        if scan[off:off + 2] != bdom:
            return False, "cup {} does not sit on its wires".format(i),\
                n_words, n_cups
        (lname, lz), (rname, rz) = scan[off], scan[off + 1]
        if lname != rname or rz != lz + 1:
            return False, "cup {} joins {}, {} which is not (t, t.r)".format(
                i, scan[off], scan[off + 1]), n_words, n_cups
        scan = scan[:off] + scan[off + 2:]
        n_cups += 1
    if scan != rigid_key(target):
        return False, "wires left after the cups are not the target",\
            n_words, n_cups
    return True, "", n_words, n_cups


def word_key(box):
    return (box_kind(box), box.name, rigid_key(box.dom), rigid_key(box.cod))


def eager_reduces(word_types, target):
    """
    Own statement of the eager strategy on plain tuples: contract the leftmost
    adjacent (t, t.r) pair, stop as soon as the wires are the target.
    Informational only (the statement does not constrain refusals).
    """
    scan = tuple(x for ty in word_types for x in ty)
    while True:
        spot = None
        for i in range(len(scan) - 1):
            if scan[i][0] == scan[i + 1][0] and scan[i + 1][1] == scan[i][1] + 1:
                spot = i
                break
        if spot is not None:
            scan = scan[:spot] + scan[spot + 2:]
        if scan == target:
            return True
        if spot is None:
            return False


# ----------------------------------------------------------------------- CFG
def mono_key(ty):
    return tuple(ob.name for ob in ty.objects)


def prod_key(box):
    return (box.name, mono_key(box.dom), mono_key(box.cod))


def cfg_derivation(sentence, start, productions):
    """
    `sentence` is read bottom-up (it was built with `<<`): its last box is the
    first production applied to the start symbol.  Every box must be one of
    the productions, sit at offset 0 and have as codomain the leftmost open
    symbol of the sentential form at that point.
    Returns (ok, reason).
    """
    if mono_key(sentence.dom) != ():
        return False, "domain is not Ty()"
    if mono_key(sentence.cod) != mono_key(start):
        return False, "codomain is not the start symbol"
    allowed = [prod_key(p) for p in productions]
    form = mono_key(start)
    boxes, offsets = sentence.boxes, sentence.offsets
    for i in range(len(boxes) - 1, -1, -1):
        box, off = boxes[i], offsets[i]
        if prod_key(box) not in allowed:
            return False, "box {} is not a production".format(i)
        bcod = mono_key(box.cod)
        if not form:
            return False, "box {} applied to a closed sentential form".format(i)
        if len(bcod) != 1 or bcod[0] != form[0]:
            return False, "box {} rewrites {} but the leftmost open symbol "\
                "is {}".format(i, bcod, form[0])
        if off != 0:
            return False, "box {} is applied at offset {}".format(i, off)
        form = mono_key(box.dom) + form[1:]
    if form != ():
        return False, "open symbols {} are left".format(form)
    return True, ""


def sentence_key(sentence):
    return (mono_key(sentence.dom), mono_key(sentence.cod),
            tuple(prod_key(b) for b in sentence.boxes),
            tuple(sentence.offsets))


# ------------------------------------------------------------ biclosed types
def slash_kind(ob):
    """ "Over" / "Under" for slash objects, None for atomic objects. """
    kind = type(ob).__name__
    if kind in ("Over", "Under") and getattr(ob, "left", None) is not None\
            and getattr(ob, "right", None) is not None:
        return kind
    return None


def biclosed_key(ty):
    """ biclosed.Ty -> tuple of object keys. """
    if slash_kind(ty):
        return ((slash_kind(ty), biclosed_key(ty.left),
                 biclosed_key(ty.right)),)
    out = []
    for ob in ty.objects:
        if slash_kind(ob):
            out.append((slash_kind(ob), biclosed_key(ob.left),
                        biclosed_key(ob.right)))
        else:
            out.append(("ob", ob.name))
    return tuple(out)


def image_of_key(key, ob_image):
    """
    The object map every functor into a rigid category must have:
        atom      -> ob_image(name)                   (tuple of (name, z))
        Over(a,b) -> A @ B.l       Under(a,b) -> A.r @ B
        tensor    -> concatenation
    """
    out = ()
    for obj in key:
        if obj[0] == "ob":
            out = out + tuple(ob_image(obj[1]))
        elif obj[0] == "Over":
            out = out + image_of_key(obj[1], ob_image)\
                + adj_l(image_of_key(obj[2], ob_image))
        else:
            out = out + adj_r(image_of_key(obj[1], ob_image))\
                + image_of_key(obj[2], ob_image)
    return out


def image(ty, ob_image):
    return image_of_key(biclosed_key(ty), ob_image)


def identity_ob_image(name):
    return ((name, 0),)


def key_depth(key):
    depth = 0
    for obj in key:
        if obj[0] != "ob":
            depth = max(depth, 1 + max(key_depth(obj[1]), key_depth(obj[2])))
    return depth


# --------------------------------------------------------------- CCG strings
class CategorySyntaxError(ValueError):
    pass


def parse_category(text):
    """
    Recursive descent over depccg-style category strings:

        cat     := operand [ slash operand ]
        operand := '(' cat ')' [modifier] | atom [modifier]
        slash   := '/' | '\\'
        modifier:= '[' anything but ']' ']'        (dropped)

    A chain of several unbracketed slashes is refused (depccg always brackets
    complex operands, and the reading of a chain is a matter of convention).
    """
    pos = [0]

    def peek():
        return text[pos[0]] if pos[0] < len(text) else ""

    def modifier():
        if peek() == "[":
            end = text.find("]", pos[0])
            if end < 0:
                raise CategorySyntaxError("unclosed modifier")
            pos[0] = end + 1

    def operand():
        if peek() == "(":
            pos[0] += 1
            node = cat()
            if peek() != ")":
                raise CategorySyntaxError("expected )")
            pos[0] += 1
            modifier()
            return node
        start = pos[0]
        while peek() and peek() not in "()/\\[]":
            pos[0] += 1
        if start == pos[0]:
            raise CategorySyntaxError("empty atom at {}".format(start))
        name = text[start:pos[0]]
        modifier()
        return ("atom", name)

    def cat():
        node = operand()
        if peek() in ("/", "\\") and peek():
            slash = peek()
            pos[0] += 1
            node = (slash, node, operand())
            if peek() in ("/", "\\") and peek():
                raise CategorySyntaxError("unbracketed chain of slashes")
        return node

    node = cat()
    if pos[0] != len(text):
        raise CategorySyntaxError("trailing text at {}".format(pos[0]))
    return node


def category_key(node):
    """ Category tree -> biclosed type key.  X/Y = Over(X, Y); X\\Y = Under(Y, X). """
    if node[0] == "atom":
        return (("ob", node[1]),)
    result, argument = category_key(node[1]), category_key(node[2])
    if node[0] == "/":
        return (("Over", result, argument),)
    return (("Under", argument, result),)


def ccg_leaves(tree):
    if "word" in tree:
        return [tree["word"]]
    return [w for child in tree["children"] for w in ccg_leaves(child)]


def ccg_nodes(tree):
    if "word" in tree:
        return 1
    return 1 + sum(ccg_nodes(child) for child in tree["children"])


def planar_word_order(diagram, leaves):
    """
    Follows the wires of a diagram built from a tree: every wire remembers the
    interval of leaf indices below it; word boxes must introduce the leaves in
    order and the intervals must stay sorted from left to right.
    Word boxes are the boxes with empty domain whose name is a leaf.
    Returns (ok, reason).
    """
    scan, next_leaf = [], 0
    for i, (box, off) in enumerate(zip(diagram.boxes, diagram.offsets)):
        n_in, n_out = len(box.dom.objects), len(box.cod.objects)
        if n_in == 0 and box.name in leaves:
            if next_leaf >= len(leaves) or box.name != leaves[next_leaf]:
                return False, "box {} is word {!r}, expected {!r}".format(
                    i, box.name, leaves[next_leaf:next_leaf + 1])
            span = (next_leaf, next_leaf)
            next_leaf += 1
        else:
            inputs = scan[off:off + n_in]
            if not inputs:
                span = None
            else:
                span = (min(s[0] for s in inputs), max(s[1] for s in inputs))
        scan[off:off + n_in] = [span] * n_out
        flat = [s for s in scan if s is not None]
        for a, b in zip(flat, flat[1:]):
            if a != b and a[1] >= b[0]:
                return False, "after box {} wires are out of word order".format(i)
    if next_leaf != len(leaves):
        return False, "{} of {} words placed".format(next_leaf, len(leaves))
    return True, ""
