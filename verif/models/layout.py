"""
layout - reference model for C20: planarity predicates over the
(graph, positions) pair returned by discopy.drawing.diagram2nx.

Nothing of discopy.drawing is called here.  A diagram is reduced to a
*skeleton* (number of inputs/outputs and, per layer, the arity and offset of
the box) by reading `dom, cod, boxes, offsets` (and `inside` for bubbles);
the expected nodes and edges are recomputed by following the wires through the
skeleton, and the coordinates are judged height by height.

Bubbles.  diagram2nx draws `diagram.open_bubbles()`; the skeleton applies its
own, independent reading of that documented transformation

    bubble  ->  open  >>  Id(left) @ inside @ Id(right)  >>  close

with one extra wire on each side.  The opening box has straight-through edges
dom[i] -> cod[i + 1] (and box -> first/last cod) exactly when
len(bubble.dom) == len(inside.dom); the closing box dom[i + 1] -> cod[i] (and
first/last dom -> box) exactly when len(bubble.cod) == len(inside.cod);
otherwise they are wired like ordinary boxes.
"""
EPS = 1e-9


class Step:
    """ One layer: a box of arity n_in -> n_out at offset `off`. """
    __slots__ = ("kind", "n_in", "n_out", "off", "straight", "name")

    def __init__(self, kind, n_in, n_out, off, straight=False, name=None):
        self.kind, self.n_in, self.n_out, self.off = kind, n_in, n_out, off
        self.straight, self.name = straight, name

    def show(self):
        return (self.kind + ("*" if self.straight else ""), self.n_in,
                self.n_out, self.off)


class Skeleton:
    def __init__(self, n_dom, n_cod, steps):
        self.n_dom, self.n_cod, self.steps = n_dom, n_cod, steps

    def show(self):
        return {"dom": self.n_dom, "cod": self.n_cod,
                "steps": [s.show() for s in self.steps]}


def is_bubble(box):
    return hasattr(box, "inside")


def steps_of(diagram, shift=0):
    steps = []
    for box, off in zip(diagram.boxes, diagram.offsets):
        if is_bubble(box):
            inside = box.inside
            steps.append(Step(
                "open", len(box.dom), len(inside.dom) + 2, off + shift,
                straight=len(box.dom) == len(inside.dom), name="open_bubble"))
            steps += steps_of(inside, shift + off + 1)
            steps.append(Step(
                "close", len(inside.cod) + 2, len(box.cod), off + shift,
                straight=len(box.cod) == len(inside.cod), name="_close"))
        else:
            steps.append(Step("box", len(box.dom), len(box.cod), off + shift,
                              name=getattr(box, "name", None)))
    return steps


def skeleton_of(diagram):
    return Skeleton(len(diagram.dom), len(diagram.cod), steps_of(diagram))


def well_formed(skel):
    """ The skeleton itself must be a diagram (widths fit). """
    width = skel.n_dom
    for step in skel.steps:
        if step.off < 0 or step.off + step.n_in > width:
            return False
        width += step.n_out - step.n_in
    return width == skel.n_cod


def expected_graph(skel):
    """
    Independent wire-following.  Returns (nodes, edges, scans) where nodes are
    keys ("input", i) / ("output", i) / ("box", depth) / ("dom", depth, i) /
    ("cod", depth, i), and scans[k] is the list of open wires (their source
    keys) before layer k (scans[len(steps)] = wires reaching the outputs).
    """
    scan = [("input", i) for i in range(skel.n_dom)]
    nodes, edges, scans = list(scan), set(), [list(scan)]
    for depth, step in enumerate(skel.steps):
        box = ("box", depth)
        nodes.append(box)
        doms = [("dom", depth, i) for i in range(step.n_in)]
        cods = [("cod", depth, j) for j in range(step.n_out)]
        nodes += doms + cods
        opening = step.kind == "open" and step.straight
        closing = step.kind == "close" and step.straight
        for i, port in enumerate(doms):
            edges.add((scan[step.off + i], port))
            if closing:
                if i in (0, step.n_in - 1):
                    edges.add((port, box))
            elif not opening:
                edges.add((port, box))
        for j, port in enumerate(cods):
            if opening:
                if j in (0, step.n_out - 1):
                    edges.add((box, port))
            elif not closing:
                edges.add((box, port))
        if opening:
            for i in range(step.n_in):
                edges.add((doms[i], cods[i + 1]))
        if closing:
            for j in range(step.n_out):
                edges.add((doms[j + 1], cods[j]))
        scan = scan[:step.off] + cods + scan[step.off + step.n_in:]
        scans.append(list(scan))
    for i in range(skel.n_cod):
        out = ("output", i)
        nodes.append(out)
        edges.add((scan[i], out))
    return nodes, edges, scans


def key_of(node):
    """ Key of a drawing.Node, read from its public fields. """
    kind = node.kind
    if kind in ("input", "output"):
        return (kind, node.i)
    if kind == "box":
        return ("box", node.depth)
    if kind in ("dom", "cod"):
        return (kind, node.depth, node.i)
    return ("?", repr(node))


class Report:
    """ predicate -> [evaluations, first failure or None] """
    def __init__(self):
        self.items = {}

    def judge(self, predicate, ok, **detail):
        entry = self.items.setdefault(predicate, [0, None])
        entry[0] += 1
        if not ok and entry[1] is None:
            entry[1] = detail
        return ok

    def failed(self):
        return [p for p, (_, bad) in self.items.items() if bad is not None]


PREDICATES = [
    "node-census", "edges-equal-wiring", "open-wires-strictly-increasing",
    "interlayer-wires-vertical", "edges-point-downwards",
    "box-strictly-between-neighbours"]


def check_layout(skel, graph, positions, box_names=True):
    """
    Evaluates every predicate at every height.  `graph` needs `.nodes` and
    `.edges` (iterables), `positions` maps nodes to (x, y).
    """
    report = Report()
    exp_nodes, exp_edges, scans = expected_graph(skel)
    # -- census ---------------------------------------------------------------
    by_key, duplicates = {}, []
    for node in graph.nodes:
        key = key_of(node)
        if key in by_key:
            duplicates.append(key)
        by_key[key] = node
    missing = [k for k in exp_nodes if k not in by_key]
    extra = [k for k in by_key if k not in set(exp_nodes)]
    unplaced = [key_of(n) for n in graph.nodes if n not in positions]
    stray = len(positions) - len(by_key) - len(duplicates)
    census = report.judge(
        "node-census",
        not (missing or extra or duplicates or unplaced or stray),
        missing=missing[:6], extra=extra[:6], duplicates=duplicates[:6],
        without_position=unplaced[:6], positions_without_node=stray,
        expected=len(exp_nodes), got=len(by_key))
    if box_names and census:
        wrong = []
        for depth, step in enumerate(skel.steps):
            box = by_key[("box", depth)].box
            got = (len(box.dom), len(box.cod))
            if got != (step.n_in, step.n_out):
                wrong.append((depth, got, (step.n_in, step.n_out)))
            elif step.kind != "box" and getattr(box, "name", None) != step.name:
                wrong.append((depth, repr(getattr(box, "name", None)),
                              repr(step.name)))
        report.judge("node-census", not wrong, wrong_box_at_depth=wrong[:4])
    if not census:
        return report
    # -- edges ------------------------------------------------------------------
    got_edges = set((key_of(s), key_of(t)) for s, t in graph.edges)
    report.judge("edges-equal-wiring", got_edges == exp_edges,
                 missing=sorted(exp_edges - got_edges)[:6],
                 extra=sorted(got_edges - exp_edges)[:6])
    pos = {key: positions[node] for key, node in by_key.items()}

    def xs(keys):
        return [pos[k][0] for k in keys]

    def increasing(values):
        return all(b - a > EPS for a, b in zip(values, values[1:]))
    # -- every height -------------------------------------------------------------
    report.judge("open-wires-strictly-increasing", increasing(xs(scans[0])),
                 height="inputs", xs=xs(scans[0]))
    for depth, step in enumerate(skel.steps):
        before, after = scans[depth], scans[depth + 1]
        left = before[:step.off]
        right = before[step.off + step.n_in:]
        doms = [("dom", depth, i) for i in range(step.n_in)]
        cods = [("cod", depth, j) for j in range(step.n_out)]
        at_dom = xs(left) + xs(doms) + xs(right)
        at_cod = xs(left) + xs(cods) + xs(right)
        report.judge("open-wires-strictly-increasing", increasing(at_dom),
                     height="dom ports of box {}".format(depth), xs=at_dom,
                     box=step.show())
        report.judge("open-wires-strictly-increasing", increasing(at_cod),
                     height="cod ports of box {}".format(depth), xs=at_cod,
                     box=step.show())
        report.judge("open-wires-strictly-increasing", increasing(xs(after)),
                     height="below box {}".format(depth), xs=xs(after),
                     box=step.show())
        centre = pos[("box", depth)][0]
        span = xs(doms) + xs(cods) + [centre]
        lo, hi = min(span), max(span)
        left_x = pos[left[-1]][0] if left else None
        right_x = pos[right[0]][0] if right else None
        ok = (left_x is None or lo - left_x > EPS)\
            and (right_x is None or right_x - hi > EPS)
        report.judge("box-strictly-between-neighbours", ok, depth=depth,
                     box=step.show(), centre=centre, dom_xs=xs(doms),
                     cod_xs=xs(cods), left_wire=left_x, right_wire=right_x)
        # stacking of the layer: ports just above / below their box
        y_dom = [pos[k][1] for k in doms]
        y_cod = [pos[k][1] for k in cods]
        y_box = pos[("box", depth)][1]
        above = min([pos[k][1] for k in before] or [y_box + 1])
        stacked = all(above - y > EPS for y in y_dom + [y_box])\
            and all(y - y_box > EPS for y in y_dom)\
            and all(y_box - y > EPS for y in y_cod)
        report.judge("edges-point-downwards", stacked, what="layer order",
                     depth=depth, y_open_wires_above=above, y_dom=y_dom[:3],
                     y_box=y_box, y_cod=y_cod[:3])
    # -- every edge ---------------------------------------------------------------
    for source, target in sorted(got_edges):
        (x0, y0), (x1, y1) = pos[source], pos[target]
        report.judge("edges-point-downwards", y0 - y1 > EPS, what="edge",
                     source=source, target=target, y_source=y0, y_target=y1)
        if source[0] in ("input", "cod") and target[0] in ("dom", "output"):
            report.judge("interlayer-wires-vertical", abs(x0 - x1) <= EPS,
                         source=source, target=target, x_source=x0,
                         x_target=x1)
    return report


# -- TikZ text ------------------------------------------------------------------

import re

NODE_RE = re.compile(
    r"^\\node(?: \[(?P<opts>[^\]]*)\])? \((?P<id>[^)]+)\) at "
    r"\((?P<x>[-+0-9.eE]+), (?P<y>[-+0-9.eE]+)\) \{(?P<text>.*)\};$")
REF_RE = re.compile(r"\(([^()]+)\.center\)")


def parse_tikz(text):
    """
    Returns a dict: nodes [(id, x, y, opts, text)], draws [(options, [ids])],
    problems [str].  Only the shape emitted by TikzBackend.output is accepted.
    """
    lines = text.split("\n")
    problems, nodes, draws = [], [], []
    if lines and lines[-1] == "":
        lines = lines[:-1]
    if not lines or not lines[0].startswith("\\begin{tikzpicture}"):
        problems.append("no \\begin{tikzpicture}")
    if not lines or lines[-1] != "\\end{tikzpicture}":
        problems.append("no \\end{tikzpicture}")
    layer = None
    for line in lines[1:-1]:
        if line.startswith("\\begin{pgfonlayer}"):
            layer = line[len("\\begin{pgfonlayer}"):].strip("{}")
            continue
        if line.startswith("\\end{pgfonlayer}"):
            layer = None
            continue
        if line.startswith("\\node"):
            match = NODE_RE.match(line)
            if match is None:
                problems.append("unparsable node: " + line[:120])
                continue
            if layer != "nodelayer":
                problems.append("node outside the node layer")
            nodes.append((match.group("id"), float(match.group("x")),
                          float(match.group("y")), match.group("opts") or "",
                          match.group("text")))
        elif line.startswith("\\draw"):
            if layer != "edgelayer":
                problems.append("draw outside the edge layer")
            options = line[line.find("[") + 1:line.find("]")]\
                if "[" in line else ""
            if not line.endswith(";"):
                problems.append("unterminated draw: " + line[:120])
            draws.append((options, REF_RE.findall(line)))
        elif line.strip():
            problems.append("unexpected line: " + line[:120])
    return {"nodes": nodes, "draws": draws, "problems": problems}


def tikz_wires(parsed):
    """
    Wire commands as pairs of coordinates.  A node id defined twice resolves
    to its last definition, which is what TikZ does.
    """
    where = {}
    for ident, x, y, _, _ in parsed["nodes"]:
        where[ident] = (x, y)
    wires = []
    for options, refs in parsed["draws"]:
        if options.startswith("in=") and len(refs) == 2\
                and refs[0] in where and refs[1] in where:
            wires.append((where[refs[0]], where[refs[1]]))
    return wires
