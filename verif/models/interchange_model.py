"""
Adjacent exchange on (boxes, offsets) lists, the "blocked" predicate, and the
enumeration of interchanger-equivalence classes by BFS.

A model diagram is a tuple of (box_index, offset) pairs plus the arities
(n_in, n_out) of each box index; box indices refer to the boxes of the
original diagram so that results can be compared box by box.
"""


def exchange(layers, arity, i):
    """
    Exchange layers i and i+1.  Returns a list of possible results (0, 1 or 2
    entries: the ambiguous case has two legal placements), each a new tuple of
    layers, tagged "right" (box i+1 was right of box i) / "left".
    """
    (b0, o0), (b1, o1) = layers[i], layers[i + 1]
    dom0, cod0 = arity[b0]
    dom1, cod1 = arity[b1]
    out = []
    if o1 >= o0 + cod0:          # box1 entirely right of box0's outputs
        new = layers[:i] + ((b1, o1 - cod0 + dom0), (b0, o0)) + layers[i + 2:]
        out.append(("right", new))
    if o0 >= o1 + dom1:          # box1 entirely left of box0
        new = layers[:i] + ((b1, o1), (b0, o0 - dom1 + cod1)) + layers[i + 2:]
        out.append(("left", new))
    return out


def model_of(diagram):
    arity = [(len(box.dom), len(box.cod)) for box in diagram.boxes]
    layers = tuple((k, off) for k, off in enumerate(diagram.offsets))
    return layers, arity


def layers_of(diagram, order):
    """ Layers of `diagram` whose k-th box is the original box order[k]. """
    return tuple((order[k], off) for k, off in enumerate(diagram.offsets))


def nested_empty(layers, arity, i):
    """
    The geometric obstruction that is not a shared wire: a box with no outputs
    strictly inside the input span of the next box, or a box with no inputs
    strictly inside the output span of the previous one.
    """
    (b0, o0), (b1, o1) = layers[i], layers[i + 1]
    dom0, cod0 = arity[b0]
    dom1, cod1 = arity[b1]
    if cod0 == 0 and o1 < o0 < o1 + dom1:
        return True
    if dom1 == 0 and o0 < o1 < o0 + cod0:
        return True
    return False


def shares_wire(layers, arity, i):
    """ Output interval of box i and input interval of box i+1 overlap. """
    (b0, o0), (b1, o1) = layers[i], layers[i + 1]
    cod0, dom1 = arity[b0][1], arity[b1][0]
    return cod0 > 0 and dom1 > 0 and o0 < o1 + dom1 and o1 < o0 + cod0


def neighbours(layers, arity):
    for i in range(len(layers) - 1):
        for tag, new in exchange(layers, arity, i):
            yield i, tag, new


def equivalence_class(layers, arity, cap):
    """ BFS; returns (members, closed). """
    seen, frontier = {layers}, [layers]
    while frontier:
        nxt = []
        for cur in frontier:
            for _, _, new in neighbours(cur, arity):
                if new not in seen:
                    seen.add(new)
                    nxt.append(new)
                    if len(seen) >= cap:
                        return seen, False
        frontier = nxt
    return seen, True
