"""
tket oracle: the matrices of tket's own operations, and a harness-side circuit
evaluator built on them.  Nothing here imports discopy.

Conventions
-----------
* All matrices returned by this module are in the usual *column-vector*
  convention ``U[output, input]`` and in tket's ILO-BE basis order: qubit 0
  (the leftmost wire) is the most significant bit of the basis index.
* tket counts angles in half-turns (``Rz(a) = exp(-i pi a Z / 2)``); discopy
  counts phases in full turns.  Every function here takes the *discopy* phase
  and hands ``2 * phase`` to tket.
* discopy evaluates a circuit to an array indexed ``[inputs..., outputs...]``.
  ``from_discopy(array, n_in, n_out)`` turns that into the convention above
  (reshape to ``(2**n_in, 2**n_out)`` and transpose) -- plain numpy, no
  discopy code involved.

The circuit evaluator (``ordered_product``) multiplies ``I (x) U (x) I``
embeddings built with ``numpy.kron`` from matrices supplied by the caller -- the
caller passes this oracle's matrices, never discopy's arrays.  Rectangular
factors (kets ``2**k x 1``, bras ``1 x 2**k``, scalars ``1 x 1``) are allowed.
"""
import functools

import numpy

NAMED = ("H", "S", "T", "X", "Y", "Z", "CX", "CZ", "SWAP")
ROTATIONS = ("Rx", "Ry", "Rz", "CRz", "CRx", "CU1")
#: tket's own controlled operations, by the one-qubit target they control
TKET_CONTROLLED = {"X": "CX", "Y": "CY", "Z": "CZ", "H": "CH", "S": "CS",
                   "Rx": "CRx", "Ry": "CRy", "Rz": "CRz"}
N_QUBITS = {"H": 1, "S": 1, "T": 1, "X": 1, "Y": 1, "Z": 1, "Rx": 1, "Ry": 1,
            "Rz": 1, "CX": 2, "CZ": 2, "SWAP": 2, "CRz": 2, "CRx": 2, "CU1": 2,
            "CY": 2, "CH": 2, "CS": 2, "CSdg": 2, "CRy": 2, "Sdg": 1, "Tdg": 1}
PARAMETRISED = ("Rx", "Ry", "Rz", "CRz", "CRx", "CU1", "CRy")


def _optype(kind):
    from pytket import OpType
    return getattr(OpType, kind)


def placed(kind, n_qubits, qubits, phase=None):
    """
    ``pytket.Circuit(n_qubits).<kind>(*qubits).get_unitary()``; `phase` is a
    discopy phase (full turns), tket gets ``2 * phase`` half-turns.
    """
    from pytket import Circuit
    circuit = Circuit(n_qubits)
    if kind in PARAMETRISED:
        circuit.add_gate(_optype(kind), [2 * float(phase)], list(qubits))
    else:
        circuit.add_gate(_optype(kind), list(qubits))
    return numpy.array(circuit.get_unitary(), dtype=complex)


@functools.lru_cache(maxsize=4096)
def _unitary(kind, phase):
    result = placed(kind, N_QUBITS[kind], range(N_QUBITS[kind]), phase)
    result.setflags(write=False)
    return result


def unitary(kind, phase=None):
    """ tket's matrix of the operation called `kind` on qubits 0..k-1. """
    return _unitary(kind, None if phase is None else float(phase))


def placed_unitary(matrix, n_qubits, a, b):
    """
    A two-qubit unitary placed by tket itself on qubits ``(a, b)`` of
    `n_qubits` (``Unitary2qBox``, ILO-BE like everything else).
    """
    from pytket import Circuit
    from pytket.circuit import Unitary2qBox
    circuit = Circuit(n_qubits)
    circuit.add_unitary2qbox(Unitary2qBox(numpy.array(matrix)), a, b)
    return numpy.array(circuit.get_unitary(), dtype=complex)


def controlled(matrix):
    """ diag(I, U): the control is the more significant (left) qubit. """
    matrix = numpy.asarray(matrix, dtype=complex)
    size = matrix.shape[0]
    result = numpy.zeros((2 * size, 2 * size), dtype=complex)
    result[:size, :size] = numpy.eye(size)
    result[size:, size:] = matrix
    return result


def adjoint(matrix):
    return numpy.conjugate(numpy.asarray(matrix)).T


def basis_index(bits):
    """ Big-endian: the leftmost bit is the most significant. """
    index = 0
    for bit in bits:
        index = 2 * index + int(bit)
    return index


def ket(bits):
    """ Column vector ``2**n x 1`` of the computational-basis state. """
    result = numpy.zeros((2 ** len(bits), 1), dtype=complex)
    result[basis_index(bits), 0] = 1
    return result


def bra(bits):
    """ Row vector ``1 x 2**n``. """
    return ket(bits).T.copy()


def log2(size):
    n = int(size).bit_length() - 1
    if 2 ** n != size:
        raise ValueError("not a power of two: {}".format(size))
    return n


def embed(matrix, offset, width):
    """
    ``I_(2**offset) (x) M (x) I_(2**rest)`` where `width` is the number of
    wires *before* the factor is applied and M acts on wires
    ``offset .. offset + k_in - 1``.
    """
    matrix = numpy.asarray(matrix, dtype=complex)
    k_in = log2(matrix.shape[1])
    rest = width - offset - k_in
    if offset < 0 or rest < 0:
        raise ValueError("factor does not fit: offset {} width {} arity {}"
                         .format(offset, width, k_in))
    return numpy.kron(numpy.kron(numpy.eye(2 ** offset), matrix),
                      numpy.eye(2 ** rest))


def ordered_product(n_in, steps):
    """
    `steps` = [(matrix, offset), ...] in circuit order.  Returns the matrix
    ``E_k ... E_2 E_1`` of shape ``(2**n_out, 2**n_in)`` and ``n_out``.
    """
    width = n_in
    total = numpy.eye(2 ** n_in, dtype=complex)
    for matrix, offset in steps:
        matrix = numpy.asarray(matrix, dtype=complex)
        total = embed(matrix, offset, width) @ total
        width += log2(matrix.shape[0]) - log2(matrix.shape[1])
    return total, width


def from_discopy(array, n_in, n_out):
    """
    discopy's evaluated array (indexed inputs first, then outputs) as a matrix
    ``[output, input]``.  numpy only.
    """
    array = numpy.asarray(array, dtype=complex)
    return array.reshape(2 ** n_in, 2 ** n_out).T


def close(a, b, tol=1e-9):
    a, b = numpy.asarray(a), numpy.asarray(b)
    return a.shape == b.shape and bool(
        numpy.allclose(a, b, rtol=tol, atol=tol))


def is_unitary(matrix, tol=1e-9):
    matrix = numpy.asarray(matrix)
    if matrix.ndim != 2 or matrix.shape[0] != matrix.shape[1]:
        return False
    eye = numpy.eye(matrix.shape[0])
    return close(matrix @ adjoint(matrix), eye, tol)\
        and close(adjoint(matrix) @ matrix, eye, tol)
