"""
cq_sim - an independent density-operator simulator for classical-quantum
circuits (reference model of C12, reused by C13).

The state on a list of wires (each ``"bit"`` or ``"qubit"``, all of dimension
2) is ONE operator on the whole register C^(2^n): ``rho[ket, bra]`` with wire 0
the most significant bit of both indices.  A classical wire is a qubit whose
state stays diagonal: a probability vector p is the operator sum_k p_k |k><k|.

Every box kind is a hand-written channel given as a list of weighted Kraus
terms ``(w, K)`` acting on the wires the box touches:

        rho  |->  sum_i  w_i * K_i rho K_i^dagger

``K`` is a plain matrix (2^n_out x 2^n_in).  The box is embedded in the
register with numpy ``kron`` (identity on the wires left and right of it) and
applied by matrix products.  No doubled wires, no swap network, no tensordot/
moveaxis index arithmetic: nothing is shared with discopy.quantum.cqmap.

Only *values* of discopy are read, through public attributes: ``boxes``,
``offsets``, ``dom``, ``cod``, ``name`` of the objects, ``is_dagger``,
``is_mixed``, ``array``/``data`` (gate matrices and classical-gate tables are
data, not algorithm; whether a *gate matrix* is the right one is C11's
business), ``bitstring``, ``n_qubits``/``destructive``/``override_bits``,
``n_bits``/``constructive``/``reset_bits``, ``left``/``right``.

Public API
----------
kinds(ty)                     -> ["bit" | "qubit", ...]
channel(box)                  -> Channel | SwapWires
run(circuit, state)           -> State              (apply a circuit to a state)
superoperator(circuit)        -> ndarray laid out like CQMap.array
cq_shape(dom_kinds, cod_kinds)-> the shape of that array
adjoint(array, dom_kinds, cod_kinds) -> array of the adjoint map (CQMap layout)
partial_trace(array, kinds, drop)    -> CQ-state array with some wires removed
distribution(circuit, real=False) -> {bitstring: weight} of
                                 "prepare 0 on every input, run, discard qubits"
zero_state(kinds) / basis_states(kinds)

CQMap layout (read off the documentation of CQ / CQMap, cqmap.py): the type
``CQ(classical, quantum)`` lists the classical wires first, then the quantum
ones, each group in wire order; the underlying tensor has domain
``classical @ quantum @ quantum``, and ``CQMap.pure(u) = conj(u) (x) u`` puts
the conjugate copy first.  Hence the axes of ``CQMap.array`` are

    [c_in..., a_in..., b_in...,   c_out..., a_out..., b_out...]

with ``c`` the values of the classical wires, ``a`` the *bra* (conjugate)
indices of the quantum wires and ``b`` their *ket* indices: a state rho is
stored as array[c, a, b] = <c, b| rho |c, a>.
"""
import itertools

import numpy as np

BIT, QUBIT = "bit", "qubit"


class Unsupported(Exception):
    """ The value lies outside what this model describes (never a verdict). """


# -- types ---------------------------------------------------------------------

def kinds(ty):
    """ A circuit type as a list of "bit" / "qubit". """
    out = []
    for ob in ty.objects:
        name, dim = getattr(ob, "name", None), getattr(ob, "dim", None)
        if name not in (BIT, QUBIT) or dim != 2:
            raise Unsupported("wire {!r}".format(ob))
        out.append(name)
    return out


def strings(n):
    """ All bitstrings of length n, in lexicographic (big-endian) order. """
    return list(itertools.product((0, 1), repeat=n))


def index(bits):
    """ Big-endian index of a bitstring: wire 0 is the most significant. """
    result = 0
    for b in bits:
        result = 2 * result + int(b)
    return result


def ket(bits):
    """ Column vector |bits> as a (2^n x 1) matrix. """
    out = np.zeros((2 ** len(bits), 1), dtype=complex)
    out[index(bits), 0] = 1
    return out


def bra(bits):
    """ Row vector <bits| as a (1 x 2^n) matrix. """
    return ket(bits).T


# -- channels ------------------------------------------------------------------

class Channel:
    """ dom/cod wire kinds and weighted Kraus terms [(w, K)]. """
    def __init__(self, dom, cod, terms, what):
        self.dom, self.cod, self.terms, self.what = list(dom), list(cod), [
            (complex(w), np.asarray(K, dtype=complex)) for w, K in terms], what
        for _, K in self.terms:
            if K.shape != (2 ** len(self.cod), 2 ** len(self.dom)):
                raise AssertionError("Kraus term of {} has shape {}".format(
                    what, K.shape))

    def adjoint(self):
        """ Hilbert-Schmidt adjoint: sigma -> sum conj(w) K^dagger sigma K. """
        return Channel(self.cod, self.dom, [
            (w.conjugate(), K.conj().T) for w, K in self.terms],
            self.what + "^adjoint")


class SwapWires:
    """ Exchange of two adjacent wires of any kinds. """
    def __init__(self, left, right):
        self.dom, self.cod = [left, right], [right, left]
        self.what = "Swap({}, {})".format(left, right)


def _measure(n, destructive, override_bits):
    """
    Measure n qubits in the computational basis.  Inputs: the n qubits, then
    (if override_bits) n bits whose old values are thrown away.  Outputs: (if
    not destructive) the n collapsed qubits, then the n result bits.
    """
    dom = n * [QUBIT] + (n * [BIT] if override_bits else [])
    cod = ([] if destructive else n * [QUBIT]) + n * [BIT]
    olds = strings(n) if override_bits else [()]
    terms = []
    for k in strings(n):
        for old in olds:
            # result |k> (x) [collapsed |k>]  <-  <k| (x) [<old| forgotten]
            out = ket(k) if destructive else np.kron(ket(k), ket(k))
            inp = np.kron(bra(k), bra(old)) if override_bits else bra(k)
            terms.append((1, out @ inp))
    return Channel(dom, cod, terms, "Measure({}, destructive={}, "
                   "override_bits={})".format(n, destructive, override_bits))


def _encode(n, constructive, reset_bits):
    """
    Written out by hand as well (not by calling .adjoint()), so that the
    adjointness Measure <-> Encode is a checked fact of this model too:
    inputs: (if not constructive) n qubits, then n bits;
    outputs: n qubits, then (if reset_bits) n fresh bits carrying the all-ones
    (unnormalised uniform) vector.
    sigma (x) |k><k|  |->  P_k sigma P_k        (not constructive)
              |k><k|  |->  |k><k|                (constructive)
    """
    dom = ([] if constructive else n * [QUBIT]) + n * [BIT]
    cod = n * [QUBIT] + (n * [BIT] if reset_bits else [])
    news = strings(n) if reset_bits else [()]
    terms = []
    for k in strings(n):
        for new in news:
            out = np.kron(ket(k), ket(new)) if reset_bits else ket(k)
            inp = bra(k) if constructive else np.kron(bra(k), bra(k))
            terms.append((1, out @ inp))
    return Channel(dom, cod, terms, "Encode({}, constructive={}, "
                   "reset_bits={})".format(n, constructive, reset_bits))


def _gate_matrix(box, n_in, n_out):
    """
    discopy stores arrays as [input..., output...] (a state is multiplied from
    the left: psi_out[o] = sum_i psi_in[i] G[i, o]); the operator acting on
    column vectors is the transpose.
    """
    table = np.asarray(box.array, dtype=complex)
    if table.size != 2 ** (n_in + n_out):
        raise Unsupported("array of {!r} has {} entries".format(
            box, table.size))
    return table.reshape(2 ** n_in, 2 ** n_out).T


def channel(box):
    """ The hand-written channel of one box. """
    cls = [c.__name__ for c in type(box).__mro__]
    dom, cod = kinds(box.dom), kinds(box.cod)
    flagged = bool(getattr(box, "is_dagger", False))
    if "Swap" in cls:
        left, = kinds(box.left)
        right, = kinds(box.right)
        return SwapWires(left, right)
    if "Measure" in cls:
        return _measure(box.n_qubits, bool(box.destructive),
                        bool(box.override_bits))
    if "Encode" in cls:
        return _encode(box.n_bits, bool(box.constructive),
                       bool(box.reset_bits))
    if "Discard" in cls:       # partial trace / marginal, any mix of kinds
        return Channel(dom, [], [(1, bra(j)) for j in strings(len(dom))],
                       "Discard")
    if "MixedState" in cls:    # adjoint of Discard: the identity operator
        return Channel([], cod, [(1, ket(j)) for j in strings(len(cod))],
                       "MixedState")
    if "Ket" in cls:
        return Channel([], cod, [(1, ket(box.bitstring))], "Ket")
    if "Bra" in cls:
        return Channel(dom, [], [(1, bra(box.bitstring))], "Bra")
    if "Sqrt" in cls:          # pure scalar sqrt(x): Born rule gives |x|
        return Channel([], [], [(abs(complex(box.data) ** .5) ** 2,
                                 np.ones((1, 1)))], "Sqrt")
    if "Scalar" in cls:
        z = complex(box.data)
        weight = z if box.is_mixed else abs(z) ** 2
        return Channel([], [], [(weight, np.ones((1, 1)))], "Scalar")
    if "Bits" in cls:
        if flagged:            # post-selection of classical values
            return Channel(dom, [], [(1, bra(box.bitstring))], "Bits^dagger")
        return Channel([], cod, [(1, ket(box.bitstring))], "Bits")
    if "Copy" in cls:
        return Channel([BIT], [BIT, BIT], [
            (1, ket((k, k)) @ bra((k, ))) for k in (0, 1)], "Copy")
    if "Match" in cls:
        return Channel([BIT, BIT], [BIT], [
            (1, ket((k, )) @ bra((k, k))) for k in (0, 1)], "Match")
    if "ClassicalGate" in cls:
        if "Digits" in cls:
            raise Unsupported("Digits of dimension != 2")
        # table[input values + output values] of the *unflagged* gate; the
        # flagged one goes backwards through the conjugated table
        table = np.asarray(box.array, dtype=complex)
        if table.size != 2 ** (len(dom) + len(cod)):
            raise Unsupported("table of {!r}".format(box))
        terms = []
        if flagged:
            table = table.reshape(2 ** len(cod), 2 ** len(dom))
            for i in strings(len(dom)):
                for o in strings(len(cod)):
                    terms.append((table[index(o), index(i)].conjugate(),
                                  ket(o) @ bra(i)))
        else:
            table = table.reshape(2 ** len(dom), 2 ** len(cod))
            for i in strings(len(dom)):
                for o in strings(len(cod)):
                    terms.append((table[index(i), index(o)], ket(o) @ bra(i)))
        return Channel(dom, cod, terms, "ClassicalGate")
    if "QuantumGate" in cls:   # incl. Controlled and Rotation
        matrix = _gate_matrix(box, len(dom), len(cod))
        if flagged:            # the flag means: same array, adjoint operator
            matrix = matrix.conj().T
        return Channel(dom, cod, [(1, matrix)], "QuantumGate")
    raise Unsupported("box {!r} of class {}".format(box, cls[0]))


# -- states --------------------------------------------------------------------

class State:
    """
    A batch of operators on the register `kinds`:
    ``ops`` has shape batch_shape + (2^n, 2^n).
    """
    def __init__(self, kinds_, ops):
        self.kinds = list(kinds_)
        self.ops = np.asarray(ops, dtype=complex)
        size = 2 ** len(self.kinds)
        if self.ops.shape[-2:] != (size, size):
            raise AssertionError("operator shape {} on {} wires".format(
                self.ops.shape, len(self.kinds)))

    def classical_wires_diagonal(self, tol=1e-12):
        """ Sanity of the model itself: bits never carry coherences. """
        n = len(self.kinds)
        ops = self.ops.reshape(self.ops.shape[:-2] + 2 * n * (2, ))
        lead = len(self.ops.shape) - 2
        for i, kind in enumerate(self.kinds):
            if kind != BIT:
                continue
            for k, b in ((0, 1), (1, 0)):
                part = np.take(np.take(ops, k, axis=lead + i),
                               b, axis=lead + n + i - 1)
                if np.abs(part).max(initial=0) > tol:
                    return False
        return True

    def apply(self, chan, offset):
        n_in = len(chan.dom)
        if self.kinds[offset:offset + n_in] != chan.dom:
            raise AssertionError("{} at offset {} of {}".format(
                chan.what, offset, self.kinds))
        left, right = offset, len(self.kinds) - offset - n_in
        new_kinds = self.kinds[:offset] + chan.cod\
            + self.kinds[offset + n_in:]
        if isinstance(chan, SwapWires):
            full = np.kron(np.kron(np.eye(2 ** left), _SWAP),
                           np.eye(2 ** right))
            return State(new_kinds, full @ self.ops @ full.T)
        size = 2 ** len(new_kinds)
        total = np.zeros(self.ops.shape[:-2] + (size, size), dtype=complex)
        for weight, kraus in chan.terms:
            full = np.kron(np.kron(np.eye(2 ** left), kraus),
                           np.eye(2 ** right))
            total = total + weight * (full @ self.ops @ full.conj().T)
        return State(new_kinds, total)


_SWAP = np.array([[1, 0, 0, 0], [0, 0, 1, 0], [0, 1, 0, 0], [0, 0, 0, 1]],
                 dtype=complex)


def zero_state(kinds_):
    """ |0..0><0..0| on the given register. """
    size = 2 ** len(kinds_)
    op = np.zeros((size, size), dtype=complex)
    op[0, 0] = 1
    return State(kinds_, op)


def split(kinds_):
    """ Positions of the classical and of the quantum wires. """
    cl = [i for i, k in enumerate(kinds_) if k == BIT]
    qu = [i for i, k in enumerate(kinds_) if k == QUBIT]
    return cl, qu


def cq_shape(dom_kinds, cod_kinds):
    """ Shape of CQMap.array for these wires (without the (1,) padding). """
    out = ()
    for ks in (dom_kinds, cod_kinds):
        cl, qu = split(ks)
        out += (len(cl) + 2 * len(qu)) * (2, )
    return out


def _cq_indices(kinds_):
    """
    Yields (cq_index, ket, bra): cq_index = c + a + b in CQMap order and the
    basis operator |ket><bra| it denotes: classical wire i carries c on both
    sides, quantum wire j carries b on the ket side and a on the bra side.
    """
    cl, qu = split(kinds_)
    for c in strings(len(cl)):
        for a in strings(len(qu)):
            for b in strings(len(qu)):
                k, r = len(kinds_) * [0], len(kinds_) * [0]
                for pos, value in zip(cl, c):
                    k[pos] = r[pos] = value
                for pos, va, vb in zip(qu, a, b):
                    k[pos], r[pos] = vb, va
                yield c + a + b, index(k), index(r)


def basis_states(kinds_):
    """
    One basis operator per CQ index of the register: a State whose batch shape
    is the CQ shape of `kinds_`.
    """
    cl, qu = split(kinds_)
    shape = (len(cl) + 2 * len(qu)) * (2, )
    size = 2 ** len(kinds_)
    ops = np.zeros(shape + (size, size), dtype=complex)
    for cq, k, r in _cq_indices(kinds_):
        ops[cq + (k, r)] = 1
    return State(kinds_, ops)


def read_cq(state):
    """
    Batch of operators -> array with the batch axes followed by the CQ axes of
    the register (classical values, bra indices, ket indices).
    """
    cl, qu = split(state.kinds)
    shape = (len(cl) + 2 * len(qu)) * (2, )
    batch = state.ops.shape[:-2]
    out = np.zeros(batch + shape, dtype=complex)
    for cq, k, r in _cq_indices(state.kinds):
        out[len(batch) * (slice(None), ) + cq] = state.ops[..., k, r]
    return out


def run(circuit, state, check_diagonal=False):
    """ Applies the boxes of a circuit, in order, to a state. """
    if state.kinds != kinds(circuit.dom):
        raise AssertionError("state on {} fed to {}".format(
            state.kinds, circuit.dom))
    for box, offset in zip(circuit.boxes, circuit.offsets):
        state = state.apply(channel(box), offset)
        if check_diagonal and not state.classical_wires_diagonal():
            raise AssertionError("coherence on a bit after {!r}".format(box))
    if state.kinds != kinds(circuit.cod):
        raise AssertionError("ended on {} instead of {}".format(
            state.kinds, circuit.cod))
    return state


def superoperator(circuit, check_diagonal=False):
    """
    The circuit as a linear map on CQ states, in the layout of CQMap.array:
    every basis operator of the input register is fed through the channels.
    """
    out = run(circuit, basis_states(kinds(circuit.dom)), check_diagonal)
    return read_cq(out)


def adjoint(array, dom_kinds, cod_kinds):
    """
    Array (CQMap layout) of the Hilbert-Schmidt adjoint of a CQ map: exchange
    the input and output groups of axes and conjugate.
    """
    array = np.asarray(array, dtype=complex).reshape(
        cq_shape(dom_kinds, cod_kinds))
    n_in = len(cq_shape(dom_kinds, []))
    n_out = len(cq_shape([], cod_kinds))
    order = list(range(n_in, n_in + n_out)) + list(range(n_in))
    return np.conjugate(np.transpose(array, order))


def partial_trace(array, kinds_, drop):
    """
    `array`: a CQ state (CQMap layout, no input) on the wires `kinds_`;
    `drop`: positions of the wires to discard.  Classical wires are summed
    over, quantum wires are traced (bra index = ket index).
    """
    cl, qu = split(kinds_)
    array = np.asarray(array, dtype=complex).reshape(cq_shape([], kinds_))
    keep = [i for i in range(len(kinds_)) if i not in drop]
    kept_kinds = [kinds_[i] for i in keep]
    out = np.zeros(cq_shape([], kept_kinds), dtype=complex)
    kcl, kqu = split(kept_kinds)
    for c in strings(len(cl)):
        for a in strings(len(qu)):
            for b in strings(len(qu)):
                value = dict(zip(cl, c))
                bras, kets = dict(zip(qu, a)), dict(zip(qu, b))
                if any(bras[i] != kets[i] for i in drop if i in bras):
                    continue
                target = tuple(value[keep[j]] for j in kcl)\
                    + tuple(bras[keep[j]] for j in kqu)\
                    + tuple(kets[keep[j]] for j in kqu)
                out[target] += array[c + a + b]
    return out, kept_kinds


def distribution(circuit, real=False):
    """
    Probability (more generally: weight) of every string of output bits when
    every input wire is prepared in 0 and every output qubit is discarded
    (for a closed circuit with only bits as outputs: its distribution).
    Returns {bitstring: complex weight}, every string present (zeros too);
    with real=True the weights are floats (imaginary parts dropped).
    """
    state = run(circuit, zero_state(kinds(circuit.dom)))
    cl, qu = split(state.kinds)
    ops = state.ops
    out = {}
    for c in strings(len(cl)):
        total = 0
        for q in strings(len(qu)):
            full = len(state.kinds) * [0]
            for pos, v in zip(cl, c):
                full[pos] = v
            for pos, v in zip(qu, q):
                full[pos] = v
            total = total + ops[index(full), index(full)]
        out[c] = float(np.real(total)) if real else complex(total)
    return out


def self_check():
    """
    Facts the model must satisfy by itself (run once per worker): the
    hand-written Encode is the adjoint of the hand-written Measure in all
    variants (n = 0, 1, 2), measuring keeps bits diagonal and preserves the
    trace, and a swap is an involution that exchanges the kinds.
    Returns a list of complaints (empty = fine).
    """
    bad = []

    def sup(chan):
        st = basis_states(chan.dom).apply(chan, 0)
        return read_cq(st)
    for n in (0, 1, 2):
        for d in (True, False):
            for o in (True, False):
                m, e = _measure(n, d, o), _encode(n, d, o)
                if e.dom != m.cod or e.cod != m.dom:
                    bad.append("encode/measure types {} {} {}".format(n, d, o))
                    continue
                if not np.allclose(sup(e), adjoint(sup(m), m.dom, m.cod)):
                    bad.append("encode != measure^adjoint {} {} {}".format(
                        n, d, o))
                if not np.allclose(sup(e), sup(m.adjoint())):
                    bad.append("encode != kraus adjoint {} {} {}".format(
                        n, d, o))
                out = basis_states(m.dom).apply(m, 0)
                if not out.classical_wires_diagonal():
                    bad.append("measure leaves coherences {} {} {}".format(
                        n, d, o))
                traces = np.trace(out.ops, axis1=-2, axis2=-1)
                before = np.trace(basis_states(m.dom).ops, axis1=-2, axis2=-1)
                if not np.allclose(traces, before):
                    bad.append("measure not trace-preserving {} {} {}".format(
                        n, d, o))
    st = basis_states([BIT, QUBIT])
    twice = st.apply(SwapWires(BIT, QUBIT), 0)
    if twice.kinds != [QUBIT, BIT]:
        bad.append("swap kinds")
    twice = twice.apply(SwapWires(QUBIT, BIT), 0)
    if twice.kinds != st.kinds or not np.allclose(twice.ops, st.ops):
        bad.append("swap is not an involution")
    return bad
