"""
In-process adapter giving the installed pyzx (0.10) the API the pinned discopy
was written against (pyzx 0.6): list-valued `graph.inputs` / `graph.outputs`
(still callable, so pyzx's own `g.inputs()` keeps working), float phases, and
`edge_type` answering 0 for a missing edge instead of raising.
Nothing in /repo is edited; `install()` only rebinds `pyzx.Graph`.
"""


def install():
    import pyzx
    from pyzx.graph.graph_s import GraphS

    class IOList(list):
        def __call__(self):
            return tuple(self)

    class LegacyGraph(GraphS):
        def __init__(self):
            self.__dict__["inputs"] = IOList()
            self.__dict__["outputs"] = IOList()
            super().__init__()

        def edge_type(self, e):
            v1, v2 = e
            try:
                return self.graph[v1][v2]
            except KeyError:
                return 0

        @property
        def _inputs(self):
            return tuple(self.__dict__["inputs"])

        @_inputs.setter
        def _inputs(self, value):
            self.__dict__["inputs"][:] = list(value)

        @property
        def _outputs(self):
            return tuple(self.__dict__["outputs"])

        @_outputs.setter
        def _outputs(self, value):
            self.__dict__["outputs"][:] = list(value)

    pyzx.settings.strict_phase_types = False
    pyzx.settings.float_to_fraction_max_denominator = 10 ** 15
    pyzx.Graph = lambda *args, **kwargs: LegacyGraph()
    return LegacyGraph
