"""
Independent symbolic / numeric reference model for C14 (substitution) and C15
(gradients).

Nothing here calls discopy's subs / lambdify / grad / jacobian / free_symbols.
Diagrams are taken apart through public attributes (boxes, layers, dom, cod,
data, phase, is_dagger, is_mixed, terms, inside, array of an *evaluated*
tensor) and everything is recomputed with sympy and numpy only:

* free symbols  = union of sympy.sympify(p).free_symbols over the leaves of the
  box payloads;
* substitution  = sympy's own ``expr.subs`` applied leaf by leaf;
* derivative    = ``expr.diff`` after replacing every symbol by a *real* dummy
  (so that conjugates coming from doubled / daggered evaluations differentiate);
* finite differences = central, h = 1e-5, compared with tolerance 1e-6 (scaled,
  plus a Richardson estimate of the truncation error so that a large third
  derivative can never raise a false alarm);
* a tiny sympy-capable interpreter of ZX diagrams (discopy has none).

``instantiate`` rebuilds a diagram box by box with numeric parameters through
the public constructors; it is the harness's own substitution and is used when
the finite-difference oracle must not depend on discopy's lambdify.
"""
import numbers
from collections.abc import Mapping

import numpy
import sympy

RTOL = ATOL = 1e-9
FD_H = 1e-5
FD_TOL = 1e-6


class Unresolved(Exception):
    """ A symbol has no value / a derivative could not be taken. """


# --------------------------------------------------------------------------
# payloads and free symbols
# --------------------------------------------------------------------------
def leaves(payload, depth=0):
    """ Yields the scalar leaves of nested box data. """
    if depth > 12:
        return
    if isinstance(payload, sympy.Basic):
        if isinstance(payload, (sympy.MatrixBase, sympy.Tuple)):
            for item in payload:
                yield from leaves(item, depth + 1)
        else:
            yield payload
    elif isinstance(payload, Mapping):
        for key in payload:
            yield from leaves(payload[key], depth + 1)
    elif isinstance(payload, numpy.ndarray):
        for item in payload.flatten().tolist() if payload.dtype != object\
                else payload.flatten():
            yield from leaves(item, depth + 1)
    elif isinstance(payload, (list, tuple, set, frozenset)):
        for item in payload:
            yield from leaves(item, depth + 1)
    elif payload is None or isinstance(payload, (str, bytes)):
        return
    else:
        yield payload


def leaf_symbols(leaf):
    if isinstance(leaf, sympy.Basic):
        return set(leaf.free_symbols)
    if isinstance(leaf, (numbers.Number, numpy.number)):
        return set(sympy.sympify(leaf).free_symbols)
    return set()


def payload_symbols(payload):
    out = set()
    for leaf in leaves(payload):
        out |= leaf_symbols(leaf)
    return out


def box_payloads(box):
    """
    The parameter payloads of a box, through public attributes only.
    Formal sums and bubbles are opened (terms / inside).
    """
    if hasattr(box, "terms") and isinstance(getattr(box, "terms"), list):
        return [p for term in box.terms for b in term.boxes
                for p in box_payloads(b)]
    if hasattr(box, "inside"):
        return [p for b in box.inside.boxes for p in box_payloads(b)]
    return [getattr(box, "data", None)]


def box_symbols(box):
    out = set()
    for payload in box_payloads(box):
        out |= payload_symbols(payload)
    return out


def diagram_symbols(diagram):
    if hasattr(diagram, "terms") and isinstance(diagram.terms, list):
        return box_symbols(diagram)
    out = set()
    for box in diagram.boxes:
        out |= box_symbols(box)
    return out


def sort_symbols(symbols):
    return sorted(symbols, key=lambda s: (s.name, str(s.assumptions0)))


# --------------------------------------------------------------------------
# substitution model
# --------------------------------------------------------------------------
def subs_leaf(leaf, args):
    """ sympy's substitution on one leaf; args as given to discopy's subs. """
    if isinstance(leaf, sympy.Basic):
        return leaf.subs(*args)
    return leaf


def subs_payload(payload, args, depth=0):
    """ The payload with every leaf substituted (same nesting, lists). """
    if isinstance(payload, sympy.Basic) and not isinstance(
            payload, (sympy.MatrixBase, sympy.Tuple)):
        return subs_leaf(payload, args)
    if isinstance(payload, Mapping):
        return {k: subs_payload(v, args, depth + 1) for k, v in payload.items()}
    if isinstance(payload, numpy.ndarray):
        return [subs_payload(v, args, depth + 1) for v in payload.tolist()]\
            if payload.dtype != object else [
                subs_payload(v, args, depth + 1) for v in payload]
    if isinstance(payload, (list, tuple)):
        return [subs_payload(v, args, depth + 1) for v in payload]
    return payload


def subs_array(array, args):
    """ Flat list: sympy substitution of an evaluated array. """
    flat = numpy.asarray(array, dtype=object).flatten()
    return [subs_leaf(x, args) for x in flat]


def flat_leaves(payload):
    return list(leaves(payload))


# --------------------------------------------------------------------------
# numeric evaluation of symbolic arrays at real points
# --------------------------------------------------------------------------
def random_points(rng, symbols, n=3, lo=-1.0, hi=1.0):
    """ n environments symbol -> float (irrational-looking, away from 0). """
    points = []
    for _ in range(n):
        env = {}
        for s in sort_symbols(symbols):
            v = rng.uniform(lo, hi)
            if abs(v) < 0.05:
                v += 0.11
            env[s] = v
        points.append(env)
    return points


def _to_complex(x):
    if isinstance(x, sympy.Basic):
        return complex(x.evalf())
    return complex(x)


def numeric_many(array, envs):
    """
    Flat complex numpy vectors of an array of numbers / sympy expressions at
    each point of `envs` (one sympy.lambdify for all points).  Raises
    Unresolved when a symbol has no value.
    """
    envs = list(envs)
    if isinstance(array, numpy.ndarray) and array.dtype != object:
        vec = array.astype(complex).flatten()
        return [vec.copy() for _ in envs]
    if isinstance(array, (numbers.Number, sympy.Basic)):
        array = [array]
    flat = list(numpy.asarray(array, dtype=object).flatten())
    base = numpy.zeros(len(flat), dtype=complex)
    symbolic = []
    for i, x in enumerate(flat):
        if isinstance(x, sympy.Basic):
            if x.free_symbols:
                symbolic.append(i)
            else:
                base[i] = _to_complex(x)
        else:
            base[i] = complex(x)
    if not symbolic:
        return [base.copy() for _ in envs]
    syms = set()
    for i in symbolic:
        syms |= flat[i].free_symbols
    syms = sort_symbols(syms)
    for env in envs:
        missing = [s for s in syms if s not in env]
        if missing:
            raise Unresolved("no value for {}".format(missing))
    exprs = [flat[i] for i in symbolic]
    try:
        fn = sympy.lambdify(syms, exprs, modules="numpy", dummify=True,
                            cse=False)
    except Exception:
        fn = None
    out = []
    for env in envs:
        vec = base.copy()
        values = [env[s] for s in syms]
        res = None
        if fn is not None:
            try:
                res = [complex(v) for v in fn(*values)]
            except Exception:
                res = None
        if res is None:
            rep = {s: sympy.Float(v) for s, v in zip(syms, values)}
            res = [_to_complex(e.xreplace(rep).doit()) for e in exprs]
        for i, v in zip(symbolic, res):
            vec[i] = v
        out.append(vec)
    return out


def numeric(array, env=None):
    return numeric_many(array, [env or {}])[0]


def close(a, b, rtol=RTOL, atol=ATOL):
    a, b = numpy.asarray(a, dtype=complex).flatten(),\
        numpy.asarray(b, dtype=complex).flatten()
    if a.shape != b.shape:
        return False
    if not (numpy.all(numpy.isfinite(a)) and numpy.all(numpy.isfinite(b))):
        return False
    return bool(numpy.allclose(a, b, rtol=rtol, atol=atol))


def max_diff(a, b):
    a, b = numpy.asarray(a, dtype=complex).flatten(),\
        numpy.asarray(b, dtype=complex).flatten()
    if a.shape != b.shape:
        return "shapes {} vs {}".format(a.shape, b.shape)
    return float(numpy.max(numpy.abs(a - b))) if a.size else 0.0


def all_numbers(array):
    """ Every entry is a number (python, numpy, or a symbol-free sympy one). """
    if isinstance(array, numpy.ndarray) and array.dtype != object:
        return True
    for x in numpy.asarray(array, dtype=object).flatten():
        if isinstance(x, sympy.Basic):
            if x.free_symbols:
                return False
            try:
                _to_complex(x)
            except Exception:
                return False
        else:
            try:
                complex(x)
            except Exception:
                return False
    return True


def is_plain_number(x):
    """ python / numpy number (what numpy's ufuncs accept). """
    return isinstance(x, (numbers.Number, numpy.number))\
        and not isinstance(x, sympy.Basic)


# --------------------------------------------------------------------------
# derivatives
# --------------------------------------------------------------------------
def real_twins(symbols):
    return {s: sympy.Dummy(s.name, real=True) for s in sort_symbols(symbols)}


def diff_array(array, var, symbols=None):
    """
    d/d var of every entry, with all symbols read as real.  Returns
    (flat list of expressions over real twins, twins dict).
    """
    flat = list(numpy.asarray(array, dtype=object).flatten())
    syms = set(symbols or ())
    for x in flat:
        if isinstance(x, sympy.Basic):
            syms |= x.free_symbols
    syms.add(var)
    twins = real_twins(syms)
    out = []
    for x in flat:
        if not isinstance(x, sympy.Basic) or var not in x.free_symbols:
            out.append(sympy.Integer(0))
            continue
        der = x.xreplace(twins).diff(twins[var]).doit()
        if der.has(sympy.Derivative):
            raise Unresolved("sympy left an unevaluated Derivative")
        out.append(der)
    return out, twins


def diff_numeric(array, var, envs, symbols=None):
    """ The derivative array at each environment (keyed by the ORIGINAL symbols). """
    ders, twins = diff_array(array, var, symbols)
    return numeric_many(ders, [{twins[s]: v for s, v in env.items()
                                if s in twins} for env in envs])


def finite_difference(fn, env, var, h=FD_H):
    """
    Central difference of fn(env) (flat complex vectors) in direction var, and
    an estimate of its truncation error (difference with step 2h).
    """
    def at(delta):
        return numpy.asarray(fn({**env, var: env[var] + delta}),
                             dtype=complex).flatten()
    d1 = (at(h) - at(-h)) / (2 * h)
    d2 = (at(2 * h) - at(-2 * h)) / (4 * h)
    return d1, float(numpy.max(numpy.abs(d1 - d2))) if d1.size else 0.0


def fd_close(fd, err, expected, tol=FD_TOL):
    fd = numpy.asarray(fd, dtype=complex).flatten()
    expected = numpy.asarray(expected, dtype=complex).flatten()
    if fd.shape != expected.shape:
        return False
    scale = max(1.0, float(numpy.max(numpy.abs(expected))) if expected.size
                else 1.0)
    return bool(numpy.all(numpy.abs(fd - expected) <= tol * scale + 2 * err))


# --------------------------------------------------------------------------
# harness-side numeric rebuild of a diagram (own substitution)
# --------------------------------------------------------------------------
def to_value(leaf, env):
    if isinstance(leaf, sympy.Basic):
        missing = [s for s in leaf.free_symbols if s not in env]
        if missing:
            raise Unresolved("no value for {}".format(missing))
        z = _to_complex(leaf.xreplace(
            {s: sympy.Float(v) for s, v in env.items()}))
        return z.real if abs(z.imag) == 0 else z
    return leaf


def value_payload(payload, env):
    if isinstance(payload, sympy.Basic):
        return to_value(payload, env)
    if isinstance(payload, numpy.ndarray):
        return [value_payload(v, env) for v in payload.flatten()]
    if isinstance(payload, (list, tuple)):
        return [value_payload(v, env) for v in payload]
    return payload


def instantiate_box(box, env):
    from discopy import tensor
    from discopy.quantum import gates
    if not box_symbols(box):
        return box
    if hasattr(box, "inside"):           # bubble
        return type(box)(instantiate(box.inside, env), func=box.func,
                         drawing_name=getattr(box, "drawing_name", ""))
    if isinstance(box, gates.Rotation):
        return type(box)(to_value(box.phase, env))
    if isinstance(box, gates.MixedScalar):
        return gates.MixedScalar(to_value(box.data, env))
    if isinstance(box, gates.Sqrt):
        return gates.Sqrt(to_value(box.data, env))
    if isinstance(box, gates.Scalar):
        return gates.Scalar(to_value(box.data, env), is_mixed=box.is_mixed)
    if isinstance(box, gates.ClassicalGate):
        return gates.ClassicalGate(
            box._name, box.dom, box.cod, value_payload(box.data, env),
            _dagger=box.is_dagger)
    if isinstance(box, tensor.Box) and not isinstance(box, tensor.Spider):
        return tensor.Box(box.name, box.dom, box.cod,
                          value_payload(box.data, env), _dagger=box.is_dagger)
    raise Unresolved("cannot instantiate {}".format(type(box).__name__))


def instantiate(diagram, env):
    if hasattr(diagram, "terms") and isinstance(diagram.terms, list):
        return diagram.sum([instantiate(t, env) for t in diagram.terms],
                           diagram.dom, diagram.cod)
    result = diagram.id(diagram.dom)
    for left, box, right in diagram.layers:
        result = result >> diagram.id(left) @ instantiate_box(box, env)\
            @ diagram.id(right)
    return result


# --------------------------------------------------------------------------
# a tiny sympy-capable ZX interpreter
# --------------------------------------------------------------------------
class Unsupported(Exception):
    pass


def _kron(*mats):
    out = numpy.array([[1]], dtype=object)
    for m in mats:
        out = numpy.kron(out, m)
    return out


def _eye(n):
    m = numpy.zeros((2 ** n, 2 ** n), dtype=object)
    for i in range(2 ** n):
        m[i, i] = 1
    return m


_H = numpy.array([[1, 1], [1, -1]], dtype=object) * (sympy.sqrt(2) / 2)


def _spider(n_in, n_out, phase, symmetric):
    m = numpy.zeros((2 ** n_out, 2 ** n_in), dtype=object)
    if symmetric:
        lo, hi = sympy.exp(-sympy.I * sympy.pi * phase),\
            sympy.exp(sympy.I * sympy.pi * phase)
    else:
        lo, hi = 1, sympy.exp(2 * sympy.I * sympy.pi * phase)
    m[0, 0] = m[0, 0] + lo
    m[-1, -1] = m[-1, -1] + hi
    return m


def zx_box_matrix(box, symmetric=False):
    """ (2^cod x 2^dom) object matrix of one ZX box; phases in full turns. """
    kind = type(box).__name__
    n_in, n_out = len(box.dom), len(box.cod)
    if kind in ("Z", "X"):
        m = _spider(n_in, n_out, sympy.sympify(box.phase), symmetric)
        if kind == "X":
            m = _kron(*(n_out * [_H])).dot(m).dot(_kron(*(n_in * [_H])))
        return m
    if kind == "Had":
        return _H
    if kind == "Swap":
        m = numpy.zeros((4, 4), dtype=object)
        for i in range(2):
            for j in range(2):
                m[2 * j + i, 2 * i + j] = 1
        return m
    if kind == "Scalar":
        return numpy.array([[sympy.sympify(box.data)]], dtype=object)
    raise Unsupported(kind)


def zx_eval(diagram, symmetric=False):
    """ Flat object array (row-major cod x dom matrix) of a ZX diagram. """
    if hasattr(diagram, "terms") and isinstance(diagram.terms, list):
        total = None
        for term in diagram.terms:
            m = zx_eval(term, symmetric)
            total = m if total is None else total + m
        if total is None:
            total = numpy.zeros(
                2 ** (len(diagram.dom) + len(diagram.cod)), dtype=object)
        return total
    state = _eye(len(diagram.dom))
    for left, box, right in diagram.layers:
        m = _kron(_eye(len(left)), zx_box_matrix(box, symmetric),
                  _eye(len(right)))
        state = m.dot(state)
    return state.flatten()
