"""
Exact branch simulator of a pytket command list, and an exact-frequency backend.

Gate unitaries are tket's own (`op.get_unitary()`, ILO-BE: first qubit most
significant).  A projective Measure splits every branch in two and writes the
classical bit.  The result is the exact distribution over ALL bits of the
circuit, as a dict {tuple(bits in circuit.bits order): probability}.
Nothing from discopy is used.
"""
import numpy


def apply_unitary(state, unitary, targets, n):
    """ state: array of shape (2,)*n; unitary acts on `targets` (in order). """
    k = len(targets)
    tensor = unitary.reshape((2,) * (2 * k))
    out = numpy.tensordot(tensor, state, axes=(list(range(k, 2 * k)), targets))
    # tensordot puts the k output axes first: move them back to `targets`
    return numpy.moveaxis(out, list(range(k)), targets)


def project(state, qubit, value):
    index = [slice(None)] * state.ndim
    index[qubit] = 1 - value
    out = state.copy()
    out[tuple(index)] = 0
    return out


def distribution(circuit):
    """ Exact distribution over circuit.bits, {bitstring: probability}. """
    qubits = sorted(circuit.qubits)
    bits = sorted(circuit.bits)
    qpos = {q: i for i, q in enumerate(qubits)}
    bpos = {b: i for i, b in enumerate(bits)}
    n = len(qubits)
    state = numpy.zeros((2,) * n, dtype=complex)
    state[(0,) * n] = 1
    branches = [(state, (0,) * len(bits))]
    for command in circuit.get_commands():
        name = command.op.type.name
        if name == "Measure":
            q, b = qpos[command.qubits[0]], bpos[command.bits[0]]
            nxt = []
            for amp, register in branches:
                for value in (0, 1):
                    part = project(amp, q, value)
                    if numpy.abs(part).max() > 1e-14:
                        reg = register[:b] + (value,) + register[b + 1:]
                        nxt.append((part, reg))
            branches = nxt
            continue
        if name == "Barrier":
            continue
        unitary = numpy.array(command.op.get_unitary())
        targets = [qpos[q] for q in command.qubits]
        branches = [(apply_unitary(amp, unitary, targets, n), register)
                    for amp, register in branches]
    out = {}
    for amp, register in branches:
        weight = float(numpy.sum(numpy.abs(amp) ** 2))
        out[register] = out.get(register, 0.0) + weight
    return out


class ExactBackend:
    """ The tiny part of the pytket Backend API that discopy uses. """
    def __init__(self, scale=2 ** 20):
        self.scale = scale
        self.results = []
        self.circuits = []

    def process_circuits(self, circuits, n_shots=None, seed=None, **_):
        handles = []
        for circuit in circuits:
            dist = distribution(circuit)
            shots = n_shots or self.scale
            counts = {bits: p * shots for bits, p in dist.items() if p > 1e-15}
            self.results.append(counts)
            self.circuits.append(circuit)
            handles.append(len(self.results) - 1)
        return handles

    def get_result(self, handle):
        counts = self.results[handle]

        class Result:
            def get_counts(self, *_, **__):
                return dict(counts)
        return Result()
