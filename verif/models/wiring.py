"""
Port-level wiring of a diagram, computed by following wires through the list
of (box, offset) pairs.  Nodes: ("in", i), ("out", i), ("box", k, "dom"|"cod", j).
"""
from verif.models.typing import tykey


def wiring(diagram, relabel=None):
    """
    Set of edges (source, target): source is ("in", i) or ("cod", k, j),
    target is ("out", i) or ("dom", k, j).  `relabel` maps box positions to
    the labels to use (to compare diagrams up to a reordering of boxes).
    """
    label = (lambda k: k) if relabel is None else (lambda k: relabel[k])
    scan = [("in", i) for i in range(len(diagram.dom))]
    edges = set()
    for k, (box, off) in enumerate(zip(diagram.boxes, diagram.offsets)):
        n, m = len(box.dom), len(box.cod)
        for j in range(n):
            edges.add((scan[off + j], ("dom", label(k), j)))
        scan[off:off + n] = [("cod", label(k), j) for j in range(m)]
    for i, source in enumerate(scan):
        edges.add((source, ("out", i)))
    return edges


def box_edges(diagram):
    """ Pairs (k, l), k < l: an output wire of box k is an input of box l. """
    pairs = set()
    for source, target in wiring(diagram):
        if source[0] == "cod" and target[0] == "dom":
            pairs.add((source[1], target[1]))
    return pairs


def components(diagram):
    """ Connected components of the box graph (box-to-box wires only). """
    n = len(diagram.boxes)
    parent = list(range(n))

    def find(x):
        while parent[x] != x:
            parent[x] = parent[parent[x]]
            x = parent[x]
        return x
    for k, l in box_edges(diagram):
        parent[find(k)] = find(l)
    return len({find(k) for k in range(n)})


def is_connected(diagram):
    return components(diagram) <= 1


def wired(diagram, k, l):
    """ Is there a wire from box k to box l (k < l)? """
    return (k, l) in box_edges(diagram)


def wiring_modulo_swaps(diagram):
    """
    Wiring with Swap boxes dissolved into the wires they cross; the other
    boxes are labelled by their rank among the non-swap boxes.
    """
    scan = [("in", i) for i in range(len(diagram.dom))]
    edges, rank = set(), 0
    for box, off in zip(diagram.boxes, diagram.offsets):
        if type(box).__name__ == "Swap" and hasattr(box, "left")\
                and len(box.dom) == 2:
            scan[off], scan[off + 1] = scan[off + 1], scan[off]
            continue
        n, m = len(box.dom), len(box.cod)
        for j in range(n):
            edges.add((scan[off + j], ("dom", rank, j)))
        scan[off:off + n] = [("cod", rank, j) for j in range(m)]
        rank += 1
    for i, source in enumerate(scan):
        edges.add((source, ("out", i)))
    return edges
