"""
fold_eval - reference model for C19 (cartesian diagrams of Python functions).

A diagram is read as a fold over a *list of opaque wire values*: every box is
applied to the slice of the list at its offset and its outputs are spliced
back in place.  Nothing of discopy.cartesian is called: the model takes a
diagram apart through `dom, cod, boxes, offsets` and calls the plain Python
function stored on every box (`box.function`).

The documented calling convention of a stored function with `m` outputs is
    m == 0  ->  returns ()            (nothing is spliced back)
    m == 1  ->  returns the value     (one wire)
    m >= 2  ->  returns an m-tuple
Wire values are never tuples (DESIGN section 5), so the convention is
unambiguous and `as_wires` below is total on the values this model meets.

A second, coarser reading is offered for *plans*: lists of steps in which
Swap(n, m) / Copy(n) / Discard(n) act on their slice as a whole (block
transposition, duplication, deletion) without looking at how discopy builds
them out of elementary swaps.
"""


class ModelError(Exception):
    """ The model cannot evaluate (ill-typed plan or broken convention). """


def as_wires(result, n_out=None):
    """ Return value of a function / diagram call -> list of wire values. """
    wires = list(result) if isinstance(result, tuple) else [result]
    if n_out is not None and len(wires) != n_out:
        raise ModelError("expected {} outputs, got {}".format(n_out, len(wires)))
    return wires


def outputs_of(function, args, n_out):
    """ Applies a stored function following the documented convention. """
    out = function(*args)
    if n_out == 1:
        if isinstance(out, tuple):
            # a one-output function may also hand back a 1-tuple
            if len(out) != 1:
                raise ModelError("one-output box returned {}".format(len(out)))
            return [out[0]]
        return [out]
    if not isinstance(out, tuple) or len(out) != n_out:
        raise ModelError("box with {} outputs returned {!r}".format(n_out, out))
    return list(out)


def fold_boxes(dom, boxes, offsets, functions, inputs):
    """
    dom: int; boxes: list of (n_in, n_out); functions: list of callables.
    Returns the final list of wire values.
    """
    wires = list(inputs)
    if len(wires) != dom:
        raise ModelError("expected {} inputs, got {}".format(dom, len(wires)))
    for (n_in, n_out), off, function in zip(boxes, offsets, functions):
        if off < 0 or off + n_in > len(wires):
            raise ModelError("box at offset {} does not fit {} wires".format(
                off, len(wires)))
        outs = outputs_of(function, wires[off:off + n_in], n_out)
        wires[off:off + n_in] = outs
    return wires


def fold_diagram(diagram, inputs):
    """ The fold over a discopy cartesian diagram's boxes and offsets. """
    boxes = [(len(box.dom), len(box.cod)) for box in diagram.boxes]
    functions = [box.function for box in diagram.boxes]
    wires = fold_boxes(
        len(diagram.dom), boxes, list(diagram.offsets), functions, inputs)
    if len(wires) != len(diagram.cod):
        raise ModelError("fold ends on {} wires, cod is {}".format(
            len(wires), len(diagram.cod)))
    return wires


# -- plans: structural maps act as a whole ------------------------------------

def plan_width(dom, plan):
    width = dom
    for step in plan:
        kind, off = step[0], step[1]
        n_in, n_out = step_arity(step)
        if off < 0 or off + n_in > width:
            raise ModelError("step {} does not fit width {}".format(step, width))
        width += n_out - n_in
    return width


def step_arity(step):
    kind = step[0]
    if kind == "box":
        return step[2], step[3]
    if kind == "swap":
        return step[2] + step[3], step[2] + step[3]
    if kind == "copy":
        return step[2], 2 * step[2]
    if kind == "discard":
        return step[2], 0
    if kind == "id":
        return step[2], step[2]
    raise ModelError("unknown step {}".format(kind))


def fold_plan(dom, plan, inputs):
    """
    plan: list of
      ("box", off, n_in, n_out, function)
      ("swap", off, left, right)     block transposition
      ("copy", off, n)               xs -> xs + xs
      ("discard", off, n)            xs -> nothing
      ("id", off, n)
    """
    wires = list(inputs)
    if len(wires) != dom:
        raise ModelError("expected {} inputs".format(dom))
    for step in plan:
        kind, off = step[0], step[1]
        n_in, n_out = step_arity(step)
        if off < 0 or off + n_in > len(wires):
            raise ModelError("step {} does not fit".format(step[:4]))
        args = wires[off:off + n_in]
        if kind == "box":
            outs = outputs_of(step[4], args, n_out)
        elif kind == "swap":
            outs = args[step[2]:] + args[:step[2]]
        elif kind == "copy":
            outs = args + args
        elif kind == "discard":
            outs = []
        else:
            outs = args
        wires[off:off + n_in] = outs
    return wires


# -- expression trees of plain functions (Function.then / tensor / id) --------

def eval_tree(tree, inputs):
    """
    tree: ("leaf", n_in, n_out, function) | ("id", n) |
          ("then", a, b) | ("tensor", a, b)
    """
    kind = tree[0]
    inputs = list(inputs)
    if kind == "leaf":
        if len(inputs) != tree[1]:
            raise ModelError("leaf arity")
        return outputs_of(tree[3], inputs, tree[2])
    if kind == "id":
        if len(inputs) != tree[1]:
            raise ModelError("id arity")
        return inputs
    if kind == "then":
        return eval_tree(tree[2], eval_tree(tree[1], inputs))
    if kind == "tensor":
        n_left = tree_arity(tree[1])[0]
        return eval_tree(tree[1], inputs[:n_left])\
            + eval_tree(tree[2], inputs[n_left:])
    raise ModelError("unknown node {}".format(kind))


def tree_arity(tree):
    kind = tree[0]
    if kind == "leaf":
        return tree[1], tree[2]
    if kind == "id":
        return tree[1], tree[1]
    if kind == "then":
        return tree_arity(tree[1])[0], tree_arity(tree[2])[1]
    left, right = tree_arity(tree[1]), tree_arity(tree[2])
    return left[0] + right[0], left[1] + right[1]
