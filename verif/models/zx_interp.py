"""
Standard interpretation of ZX diagrams, independent of discopy's algorithms.

    evaluate(zx_diagram) -> numpy matrix of shape (2**len(dom), 2**len(cod))

Convention (documented because C14/C16/C17 all rely on it)
----------------------------------------------------------
* The result is in **discopy's [input, output] convention**: rows are indexed
  by the input basis state, columns by the output basis state, i.e. it is the
  *transpose* of the usual column-vector matrix ``M[output, input]``.  It is
  directly comparable with ``circuit.eval().array.reshape(2**n_in, 2**n_out)``.
  For the usual matrix use ``evaluate(d).T`` (pyzx's ``to_matrix`` is
  ``[output, input]``).
* Basis order is big-endian: the leftmost wire is the most significant bit.
* Phases are counted in **full turns**: a spider with phase ``p`` carries
  ``exp(2 pi i p)``.
* Generators:
    Z(n, m, p) = |0..0><0..0| + exp(2 pi i p) |1..1><1..1|
                 (n = m = 0 gives the number 1 + exp(2 pi i p))
    X(n, m, p) = H^(x)m . Z(n, m, p) . H^(x)n     (Hadamard-conjugated Z)
    H          = 1/sqrt(2) [[1, 1], [1, -1]]
    SWAP       = the 4x4 permutation matrix
    scalar(s)  = the 1x1 matrix [s]
* Composition is layer by layer: a box at offset ``k`` in a diagram that is
  currently ``w`` wires wide contributes ``I_(2**k) (x) G (x) I_(2**rest)``
  (``numpy.kron``); in the [input, output] convention layers multiply left to
  right in diagram order.

The diagram is read through public attributes only: ``dom``, ``cod``,
``boxes``, ``offsets`` of the diagram; ``dom``, ``cod``, ``phase`` / ``data``
and the *class name* of each box (``Z``, ``X``, ``Had``, ``Swap``, ``Scalar``).
Anything else (``Y`` spiders, sums, symbolic phases that do not convert to a
number) raises ``Unsupported`` -- callers decide whether that is a refusal.
"""
import cmath
import math

import numpy

SQRT2 = math.sqrt(2)
HADAMARD = numpy.array([[1, 1], [1, -1]], dtype=complex) / SQRT2
SWAP = numpy.array([[1, 0, 0, 0], [0, 0, 1, 0], [0, 1, 0, 0], [0, 0, 0, 1]],
                   dtype=complex)


class Unsupported(Exception):
    """ The diagram contains something the standard interpretation lacks. """


def number(value):
    """ A spider phase or scalar as a Python complex; sympy numbers allowed. """
    try:
        return complex(value)
    except Exception as err:
        raise Unsupported("not a number: {!r} ({})".format(
            value, type(err).__name__))


def hadamards(n):
    result = numpy.ones((1, 1), dtype=complex)
    for _ in range(n):
        result = numpy.kron(result, HADAMARD)
    return result


def z_spider(n_in, n_out, phase):
    """ [input, output] matrix of a Z spider; phase in full turns. """
    phase = number(phase)
    result = numpy.zeros((2 ** n_in, 2 ** n_out), dtype=complex)
    result[0, 0] += 1
    result[-1, -1] += cmath.exp(2j * math.pi * phase)
    return result


def x_spider(n_in, n_out, phase):
    return hadamards(n_in) @ z_spider(n_in, n_out, phase) @ hadamards(n_out)


def kind_of(box):
    """ 'Z' | 'X' | 'H' | 'SWAP' | 'scalar' from the class name of the box. """
    names = [cls.__name__ for cls in type(box).__mro__]
    if "Spider" in names:
        for name in ("Z", "X"):
            if name in names:
                return name
        raise Unsupported("spider of class {}".format(names[0]))
    if "Had" in names:
        return "H"
    if "Swap" in names:
        return "SWAP"
    if "Scalar" in names:
        return "scalar"
    raise Unsupported("box of class {}".format(names[0]))


def generator(box):
    """ The [input, output] matrix of one ZX generator. """
    kind = kind_of(box)
    n_in, n_out = len(box.dom), len(box.cod)
    if kind == "Z":
        return z_spider(n_in, n_out, box.phase)
    if kind == "X":
        return x_spider(n_in, n_out, box.phase)
    if kind == "H":
        return HADAMARD
    if kind == "SWAP":
        if (n_in, n_out) != (2, 2):
            raise Unsupported("swap of {} and {} wires".format(n_in, n_out))
        return SWAP
    return numpy.array([[number(box.data)]], dtype=complex)


def evaluate(diagram, max_width=12):
    """
    The linear map denoted by a ZX diagram, shape (2**len(dom), 2**len(cod)),
    [input, output] convention (see the module docstring).
    """
    boxes, offsets = list(diagram.boxes), list(diagram.offsets)
    if len(boxes) != len(offsets):
        raise Unsupported("boxes and offsets differ in length")
    width = len(diagram.dom)
    total = numpy.eye(2 ** width, dtype=complex)
    for box, offset in zip(boxes, offsets):
        matrix = generator(box)
        n_in, n_out = len(box.dom), len(box.cod)
        rest = width - offset - n_in
        if offset < 0 or rest < 0:
            raise Unsupported("box {!r} at offset {} does not fit {} wires"
                              .format(box, offset, width))
        if width - n_in + n_out > max_width:
            raise Unsupported("diagram wider than {} wires".format(max_width))
        layer = numpy.kron(numpy.kron(numpy.eye(2 ** offset), matrix),
                           numpy.eye(2 ** rest))
        total = total @ layer
        width += n_out - n_in
    if width != len(diagram.cod):
        raise Unsupported("scan ends with {} wires, cod has {}".format(
            width, len(diagram.cod)))
    return total


def proportional(a, b, tol=1e-9):
    """
    Is ``a == k * b`` for one non-zero number k (and ``a == 0`` iff
    ``b == 0``)?  Returns (verdict, k or None, reason).  The ratio is read at
    the largest entry of `b`.
    """
    a, b = numpy.asarray(a, dtype=complex), numpy.asarray(b, dtype=complex)
    if a.shape != b.shape:
        return False, None, "shapes {} and {}".format(a.shape, b.shape)
    if a.size == 0:
        return True, None, "empty"
    size_a, size_b = float(numpy.max(numpy.abs(a))), float(numpy.max(numpy.abs(b)))
    if size_b <= tol:
        if size_a <= 100 * tol:
            return True, None, "both zero"
        return False, None, "second is zero, first is not"
    index = numpy.unravel_index(int(numpy.argmax(numpy.abs(b))), b.shape)
    factor = a[index] / b[index]
    if abs(factor) <= tol:
        return False, complex(factor), "factor is zero"
    if numpy.allclose(a, factor * b, rtol=tol, atol=tol * max(1.0, abs(factor))):
        return True, complex(factor), "proportional"
    return False, complex(factor), "not proportional"


def adjoint(matrix):
    """ Conjugate transpose (turns [input, output] of d into that of d†). """
    return numpy.conjugate(numpy.asarray(matrix)).T
