"""
Independent well-typedness scan (the C01 oracle, used by every check).

Reads only public attributes (dom, cod, boxes, offsets, layers, terms, inside)
and compares *keys* computed here, never the library's own ``==``.
"""


def obkey(ob):
    """ Structural key of an object (cat.Ob, rigid.Ob, circuit.Ob, slash types). """
    cls = type(ob).__name__
    if cls in ("Over", "Under") and hasattr(ob, "left") and hasattr(ob, "right"):
        return (cls, tykey(ob.left), tykey(ob.right))
    name = getattr(ob, "name", ob)
    z = getattr(ob, "z", 0)
    try:
        hash(name)
    except TypeError:
        name = repr(name)
    return (name, z) if z else (name,)


def tykey(ty):
    """ Structural key of a type: the tuple of its object keys. """
    if ty is None:
        return None
    cls = type(ty).__name__
    if cls in ("Over", "Under") and hasattr(ty, "left"):
        return (obkey(ty),)
    objects = getattr(ty, "objects", None)
    if objects is None:      # a bare cat.Ob used as dom/cod of a cat.Arrow
        return ("ob", obkey(ty))
    return tuple(obkey(x) for x in objects)


def is_box(d):
    boxes = d.boxes
    return len(boxes) == 1 and boxes[0] is d


def well_typed(d, depth=0):
    """
    Returns (ok, reason).  `d` is any value with the monoidal.Diagram API.
    """
    if depth > 8:
        return True, "depth cap"
    terms = getattr(d, "terms", None)
    if terms is not None and type(d).__name__ == "Sum":
        dom, cod = tykey(d.dom), tykey(d.cod)
        for k, term in enumerate(terms):
            if tykey(term.dom) != dom or tykey(term.cod) != cod:
                return False, "sum term {} has another type".format(k)
            ok, why = well_typed(term, depth + 1)
            if not ok:
                return False, "sum term {}: {}".format(k, why)
        return True, ""
    if not hasattr(d, "offsets"):
        return arrow_well_typed(d, depth)
    boxes, offsets = d.boxes, d.offsets
    if len(boxes) != len(offsets):
        return False, "len(boxes) != len(offsets)"
    inside = getattr(d, "inside", None)
    if inside is not None and is_box(d):
        ok, why = well_typed(inside, depth + 1)
        if not ok:
            return False, "bubble inside: " + why
    if is_box(d):
        if offsets != [0]:
            return False, "box with offsets {}".format(offsets)
        return layers_agree(d, [(tykey(d.dom)[:0], d, tykey(d.dom)[:0])])
    scan = tykey(d.dom)
    expected_layers = []
    for i, (box, off) in enumerate(zip(boxes, offsets)):
        if isinstance(off, bool) or not isinstance(off, int):
            return False, "offset {} is not an int".format(i)
        bdom, bcod = tykey(box.dom), tykey(box.cod)
        if off < 0 or off + len(bdom) > len(scan):
            return False, "box {} offset {} out of range for {} wires".format(
                i, off, len(scan))
        if scan[off:off + len(bdom)] != bdom:
            return False, "box {} does not find its domain at offset {}".format(
                i, off)
        expected_layers.append((scan[:off], box, scan[off + len(bdom):]))
        scan = scan[:off] + bcod + scan[off + len(bdom):]
        if not is_box(box):      # a diagram used as a box (foliation)
            ok, why = well_typed(box, depth + 1)
            if not ok:
                return False, "inner diagram {}: {}".format(i, why)
        elif getattr(box, "inside", None) is not None:
            ok, why = well_typed(box.inside, depth + 1)
            if not ok:
                return False, "bubble {}: {}".format(i, why)
        elif getattr(box, "terms", None) is not None\
                and type(box).__name__ == "Sum":
            ok, why = well_typed(box, depth + 1)
            if not ok:
                return False, "sum box {}: {}".format(i, why)
    if scan != tykey(d.cod):
        return False, "scan ends at {} but cod is {}".format(scan, tykey(d.cod))
    return layers_agree(d, expected_layers)


def layers_agree(d, expected):
    layers = d.layers
    if tykey(layers.dom) != tykey(d.dom) or tykey(layers.cod) != tykey(d.cod):
        return False, "layers.dom/cod differ from dom/cod"
    lboxes = layers.boxes
    if len(lboxes) != len(expected):
        return False, "{} layers for {} boxes".format(len(lboxes), len(expected))
    scan = tykey(d.dom)
    for i, (layer, (left, box, right)) in enumerate(zip(lboxes, expected)):
        try:
            lleft, lbox, lright = layer
        except (TypeError, ValueError):
            return False, "layer {} is not a (left, box, right) triple".format(i)
        if tykey(lleft) != left or tykey(lright) != right:
            return False, "layer {} whiskers disagree with offsets".format(i)
        if lbox is not box and not (lbox == box and box == lbox):
            return False, "layer {} holds another box".format(i)
        if tykey(layer.dom) != scan:
            return False, "layer {} dom does not chain".format(i)
        scan = left + tykey(box.cod) + right
        if tykey(layer.cod) != scan:
            return False, "layer {} cod does not chain".format(i)
    return True, ""


def arrow_well_typed(a, depth=0):
    """ Plain cat.Arrow: dom/cod chain. """
    boxes = a.boxes
    if len(boxes) == 1 and boxes[0] is a:
        return True, ""
    scan = tykey(a.dom)
    for i, box in enumerate(boxes):
        if tykey(box.dom) != scan:
            return False, "arrow box {} does not compose".format(i)
        scan = tykey(box.cod)
    if scan != tykey(a.cod):
        return False, "arrow ends at {} not cod".format(scan)
    return True, ""
