"""
kron_eval - the independent reference evaluator (DESIGN.md 2.3).

A diagram is evaluated *layer by layer*: every layer ``left @ box @ right`` is
the Kronecker product  I(left) (x) M(box) (x) I(right)  of explicit 2-D
matrices, and the diagram is the ordinary matrix product of its layers.

Nothing here calls discopy's ``Tensor.then / Tensor.tensor / Tensor.dagger`` or
any ``Functor``; discopy values are only taken apart through public attributes
(``dom, cod, boxes, offsets, objects, name, z, is_dagger, left, right, data,
terms, inside, func``) and the discopy classes are imported for ``isinstance``
only.  The index arithmetic is numpy's ``kron`` / ``@`` on matrices, which has
nothing in common with the ``tensordot / moveaxis`` axis bookkeeping of
``discopy.tensor``.

Public API
----------
``Interp(seed_or_rng, dims=(2, 3), ob_dims=None)``
    seeded *generic* interpretation: one dimension per atomic type NAME (the
    same for every winding number, i.e. self-dual), one generic complex array
    per box keyed by ``(name, dom, cod)`` of the undaggered box, conjugate
    transposed for daggered boxes.  ``dims`` may contain ints or tuples of
    ints (an atomic type sent to several wires, e.g. ``Dim(2, 3)``).
    ``.dim(ob)``, ``.wires(ob)``, ``.array(box)`` (2-D matrix), ``.raw(box)``
    (n-d array of the undaggered box, as handed to a functor).
``DataInterp()``
    the identity-on-arrays interpretation of ``tensor.Diagram``: the dimension
    of a wire is its name, the array of a box is its ``data``.
``evaluate(diagram, interp)`` -> 2-D numpy matrix (prod dom x prod cod)
``functor_args(interp, diagram, style=..., ob_as=..., ar_as=...)`` -> (ob, ar)
    the very same interpretation in the form ``discopy.tensor.Functor`` takes.
``swap_matrix(a, b)``, ``cup_matrix(d)``, ``cap_matrix(d)``,
``spider_matrix(n_in, n_out, d)``, ``flat(tensor)`` helpers.
"""
import hashlib

import numpy

from discopy import cat, monoidal, rigid, tensor as _tensor   # classes only


class KronEvalError(Exception):
    """ The reference cannot interpret this value (harness error). """


def prod(values):
    result = 1
    for value in values:
        result *= int(value)
    return result


# -- structural keys (own code, no library ==) -------------------------------

def ob_key(ob):
    return (repr(getattr(ob, "name", ob)), getattr(ob, "z", 0) or 0)


def ty_key(ty):
    return tuple(ob_key(ob) for ob in ty.objects)


def _digest(*parts):
    text = "\x1f".join(repr(part) for part in parts)
    return int.from_bytes(hashlib.md5(text.encode()).digest()[:8], "big")


# -- defining matrices of the structural boxes ----------------------------------

def swap_matrix(a, b):
    """
    The block permutation (a*b) x (b*a): basis vector |i>|j> goes to |j>|i>,
    filled in entry by entry.
    """
    matrix = numpy.zeros((a * b, b * a))
    for i in range(a):
        for j in range(b):
            matrix[i * b + j, j * a + i] = 1
    return matrix


def cup_matrix(d):
    """ sum_i <i|<i| : (d*d) x 1. """
    matrix = numpy.zeros((d * d, 1))
    for i in range(d):
        matrix[i * d + i, 0] = 1
    return matrix


def cap_matrix(d):
    """ sum_i |i>|i> : 1 x (d*d). """
    matrix = numpy.zeros((1, d * d))
    for i in range(d):
        matrix[0, i * d + i] = 1
    return matrix


def spider_matrix(n_in, n_out, d):
    """
    sum_i |i..i><i..i| : d^n_in x d^n_out (one-hot on the diagonal).
    NB with no legs at all the sum is the scalar d, whereas discopy's
    Spider(0, 0, d) holds the scalar 1; C09 only uses spiders with >= 1 leg.
    """
    matrix = numpy.zeros((d ** n_in, d ** n_out))
    for i in range(d):
        row = col = 0
        for _ in range(n_in):
            row = row * d + i
        for _ in range(n_out):
            col = col * d + i
        matrix[row, col] += 1
    return matrix


def block_swap_matrix(left, right):
    """
    Permutation matrix exchanging the block of wires `left` with the block
    `right` (tuples of dimensions), entry by entry over all multi-indices.
    """
    def ravel(index, shape):
        position = 0
        for i, n in zip(index, shape):
            position = position * n + i
        return position
    left, right = tuple(left), tuple(right)
    size = prod(left) * prod(right)
    matrix = numpy.zeros((size, size))
    for i in numpy.ndindex(*left):
        for j in numpy.ndindex(*right):
            matrix[ravel(i + j, left + right), ravel(j + i, right + left)] = 1
    return matrix


# -- interpretations ---------------------------------------------------------------

class Interp:
    """ Seeded generic interpretation, see the module docstring. """
    def __init__(self, seed=0, dims=(2, 3), ob_dims=None):
        if hasattr(seed, "getrandbits"):
            seed = seed.getrandbits(64)
        self.seed = seed
        self.dims = tuple(dims)
        self.ob_dims = dict(ob_dims or {})     # name -> int | tuple of ints
        self._cache = {}

    # objects
    def wires(self, ob):
        """ Tuple of wire dimensions of the atomic type (1s dropped). """
        objects = getattr(ob, "objects", None)
        if objects is not None:               # a one-object type was passed
            if len(objects) != 1:
                raise KronEvalError("not an atomic type: {!r}".format(ob))
            ob = objects[0]
        name = getattr(ob, "name", ob)
        if name in self.ob_dims:
            value = self.ob_dims[name]
        else:
            value = self.dims[_digest(self.seed, "ob", repr(name))
                              % len(self.dims)]
        value = (value, ) if isinstance(value, int) else tuple(value)
        return tuple(int(x) for x in value if x != 1)

    def dim(self, ob):
        """ Total dimension of the atomic type (independent of `z`). """
        return prod(self.wires(ob))

    def ty_dims(self, ty):
        return [self.dim(ob) for ob in ty.objects]

    def ty_wires(self, ty):
        return tuple(w for ob in ty.objects for w in self.wires(ob))

    # boxes
    def base(self, box):
        """ (name, dom, cod) of the undaggered box. """
        if getattr(box, "is_dagger", False):
            return box.name, box.cod, box.dom
        return box.name, box.dom, box.cod

    def raw(self, box):
        """
        n-d array of the *undaggered* box, shape wires(dom) + wires(cod)
        (shape (1,) for a scalar) -- what a functor is given for this box.
        """
        name, dom, cod = self.base(box)
        key = (repr(name), ty_key(dom), ty_key(cod))
        if key not in self._cache:
            shape = self.ty_wires(dom) + self.ty_wires(cod) or (1, )
            gen = numpy.random.default_rng(_digest(self.seed, "box", key))
            self._cache[key] = gen.uniform(-1, 1, shape)\
                + 1j * gen.uniform(-1, 1, shape)
        return self._cache[key]

    def array(self, box):
        """ 2-D matrix prod(dom) x prod(cod), conj-transposed if daggered. """
        _, dom, cod = self.base(box)
        matrix = numpy.asarray(self.raw(box)).reshape(
            prod(self.ty_dims(dom)), prod(self.ty_dims(cod)))
        if getattr(box, "is_dagger", False):
            matrix = matrix.conj().T
        return matrix

    def ob_value(self, ob, ob_as="int"):
        """ The value an object map should return for this atomic type. """
        wires = self.wires(ob)
        if ob_as == "mixed":
            ob_as = "int" if _digest(self.seed, "as", ob_key(ob)[0]) % 2\
                else "dim"
        if ob_as == "int" and len(wires) <= 1:
            return wires[0] if wires else 1
        return _tensor.Dim(*wires)


class DataInterp(Interp):
    """ Identity on arrays: tensor.Diagram -> its own dims and box data. """
    def __init__(self):
        super().__init__(0)

    def wires(self, ob):
        objects = getattr(ob, "objects", None)
        if objects is not None and len(objects) == 1:
            ob = objects[0]
        name = getattr(ob, "name", ob)
        if isinstance(name, bool) or not isinstance(name, int):
            raise KronEvalError("wire {!r} is not a dimension".format(name))
        return () if name == 1 else (name, )

    def raw(self, box):
        _, dom, cod = self.base(box)
        shape = self.ty_wires(dom) + self.ty_wires(cod) or (1, )
        return numpy.array(box.data).reshape(shape)


# -- evaluation ------------------------------------------------------------------------

def box_matrix(box, interp):
    """ 2-D matrix of one box (structural boxes by their defining tensors). """
    if isinstance(box, cat.Sum):
        return evaluate(box, interp)
    if isinstance(box, cat.Bubble):
        return evaluate(box, interp)
    if isinstance(box, monoidal.Swap):
        (a, ), (b, ) = interp.ty_dims(box.left), interp.ty_dims(box.right)
        return swap_matrix(a, b)
    if isinstance(box, rigid.Cup):
        (a, ), (b, ) = interp.ty_dims(box.left), interp.ty_dims(box.right)
        if a != b:
            raise KronEvalError("cup between dimensions {} and {}".format(a, b))
        return cup_matrix(a)
    if isinstance(box, rigid.Cap):
        (a, ), (b, ) = interp.ty_dims(box.left), interp.ty_dims(box.right)
        if a != b:
            raise KronEvalError("cap between dimensions {} and {}".format(a, b))
        return cap_matrix(a)
    if isinstance(box, _tensor.Spider):
        legs = interp.ty_dims(box.dom) + interp.ty_dims(box.cod)
        d = legs[0] if legs else prod(interp.ty_dims(box.dim))
        return spider_matrix(len(box.dom), len(box.cod), d)
    if not (len(box.boxes) == 1 and box.boxes[0] is box):
        return evaluate(box, interp)          # a diagram used as a box
    return interp.array(box)


def evaluate(diagram, interp):
    """
    Reference value of `diagram` under `interp`: a 2-D matrix
    prod(dims of dom) x prod(dims of cod).
    """
    if isinstance(diagram, cat.Sum):
        rows = prod(interp.ty_dims(diagram.dom))
        cols = prod(interp.ty_dims(diagram.cod))
        total = numpy.zeros((rows, cols))
        for term in diagram.terms:
            total = total + evaluate(term, interp)
        return total
    if isinstance(diagram, cat.Bubble):
        func = getattr(diagram, "func", None)
        if func is None:
            raise KronEvalError("bubble without a func")
        inside = evaluate(diagram.inside, interp)
        values = [func(x) for x in inside.flatten()]
        return numpy.array(values).reshape(inside.shape)
    boxes, offsets = diagram.boxes, diagram.offsets
    if len(boxes) == 1 and boxes[0] is diagram:
        return box_matrix(diagram, interp)
    dims = interp.ty_dims(diagram.dom)
    result = numpy.eye(prod(dims))
    for box, off in zip(boxes, offsets):
        matrix = box_matrix(box, interp)
        n_in = len(box.dom)
        if prod(dims[off:off + n_in]) != matrix.shape[0] or off < 0\
                or off + n_in > len(dims):
            raise KronEvalError("layer does not fit: offset {} box {}".format(
                off, box))
        left, right = prod(dims[:off]), prod(dims[off + n_in:])
        layer = numpy.kron(numpy.kron(numpy.eye(left), matrix),
                           numpy.eye(right))
        result = result @ layer
        dims = dims[:off] + interp.ty_dims(box.cod) + dims[off + n_in:]
    if dims != interp.ty_dims(diagram.cod):
        raise KronEvalError("scan ends at {} not at cod".format(dims))
    return result


def max_width(diagram, interp):
    """ Largest layer dimension met while evaluating (cost estimate). """
    if isinstance(diagram, cat.Sum):
        return max([max_width(t, interp) for t in diagram.terms]
                   + [prod(interp.ty_dims(diagram.dom)),
                      prod(interp.ty_dims(diagram.cod))])
    if isinstance(diagram, cat.Bubble):
        return max_width(diagram.inside, interp)
    dims = interp.ty_dims(diagram.dom)
    widest = prod(dims)
    boxes = diagram.boxes
    if len(boxes) == 1 and boxes[0] is diagram:
        return max(widest, prod(interp.ty_dims(diagram.cod)))
    for box, off in zip(boxes, diagram.offsets):
        if isinstance(box, (cat.Sum, cat.Bubble)):
            widest = max(widest, max_width(box, interp)
                         * prod(dims[:off]) * prod(dims[off + len(box.dom):]))
        dims = dims[:off] + interp.ty_dims(box.cod) + dims[off + len(box.dom):]
        widest = max(widest, prod(dims))
    return widest


# -- the same interpretation for discopy's tensor.Functor --------------------------------

STRUCTURAL = (monoidal.Swap, rigid.Cup, rigid.Cap)


def generators(diagram, boxes=None, types=None):
    """
    (undaggered generator boxes, types) occurring in `diagram`, in order of
    first occurrence, looking inside sums and bubbles.  Lists, not sets.
    """
    boxes = [] if boxes is None else boxes
    types = [] if types is None else types
    types += [diagram.dom, diagram.cod]
    if isinstance(diagram, cat.Sum):
        for term in diagram.terms:
            generators(term, boxes, types)
        return boxes, types
    if isinstance(diagram, cat.Bubble):
        generators(diagram.inside, boxes, types)
        return boxes, types
    for box in diagram.boxes:
        types += [box.dom, box.cod]
        if isinstance(box, (cat.Sum, cat.Bubble)):
            generators(box, boxes, types)
        elif not (len(box.boxes) == 1 and box.boxes[0] is box):
            generators(box, boxes, types)
        elif not isinstance(box, STRUCTURAL):
            boxes.append(box.dagger() if box.is_dagger else box)
    return boxes, types


def functor_args(interp, diagram=None, style="callable", ob_as="int",
                 ar_as="array"):
    """
    (ob, ar) for ``discopy.tensor.Functor(ob, ar)`` carrying exactly `interp`.

    style   "callable" | "dict" | "dict-ob" | "dict-ar"  (dicts need `diagram`)
    ob_as   "int" | "dim" | "mixed"   how a one-wire dimension is written
    ar_as   "array" (n-d numpy array) | "flat" (flat python list)
    """
    def ob_value(ob):
        return interp.ob_value(ob, ob_as)

    def ar_value(box):
        raw = interp.raw(box)
        return raw if ar_as == "array" else list(raw.flatten())

    def ob_callable(ty):
        return ob_value(ty.objects[0])

    ob, ar = ob_callable, ar_value
    if style != "callable":
        if diagram is None:
            raise KronEvalError("dict style needs the diagram")
        boxes, types = generators(diagram)
        if style in ("dict", "dict-ob"):
            ob, classes = {}, []
            for ty in types:
                if type(ty) not in classes:
                    classes.append(type(ty))
            for ty in types:
                for obj in ty.objects:
                    base = type(obj)(obj.name)          # winding number 0
                    for cls in classes:
                        ob[cls(base)] = ob_value(obj)
        if style in ("dict", "dict-ar"):
            ar = {}
            for box in boxes:
                ar[box] = ar_value(box)
    return ob, ar


def flat(value):
    """ mat(t): the array of a discopy Tensor as prod(dom) x prod(cod). """
    rows = prod(ob.name for ob in value.dom.objects)
    cols = prod(ob.name for ob in value.cod.objects)
    return numpy.asarray(value.array).reshape(rows, cols)


def dims_of(ty):
    """ The tuple of dimensions of a discopy Dim (read from object names). """
    return tuple(ob.name for ob in ty.objects)
