"""
Instrumentation layers.

L1  ConstructorMonitor: wraps monoidal.Diagram.__init__ (every diagram class
    funnels through it) and cat.Arrow.__init__; at exit runs the independent
    well-typedness scan.  Records, never raises, never changes a result.
L5  Coverage: sys.monitoring LINE events restricted to the anchored code
    objects; each line reports once and is then DISABLEd.
"""
import importlib
import sys
import types

from verif.models.typing import well_typed


class ConstructorMonitor:
    def __init__(self, ctx, violate=False):
        self.ctx, self.violate = ctx, violate
        self.seen = 0
        self.by_class = {}
        self.by_path = {"scan": 0, "layers_supplied": 0}
        self.illtyped = 0
        self.armed = False
        self._depth = 0
        self.recent = []      # (diagram, fingerprint) built during this case
        self.rechecked = 0
        self.changed_after_construction = 0

    def arm(self):
        from discopy import monoidal
        self._monoidal = monoidal
        self._orig = monoidal.Diagram.__init__
        monitor = self
        orig = self._orig

        def __init__(self, dom, cod, boxes, offsets, layers=None):
            orig(self, dom, cod, boxes, offsets, layers=layers)
            monitor.observe(self, layers is not None)
        __init__.__wrapped__ = orig
        monoidal.Diagram.__init__ = __init__
        self.armed = True

    def disarm(self):
        if self.armed:
            self._monoidal.Diagram.__init__ = self._orig
            self.armed = False

    def observe(self, diagram, fast_path):
        if self._depth:       # the scan itself never constructs, but be safe
            return
        self._depth += 1
        try:
            self.seen += 1
            name = type(diagram).__module__.replace("discopy.", "") + "."\
                + type(diagram).__name__
            self.by_class[name] = self.by_class.get(name, 0) + 1
            self.by_path["layers_supplied" if fast_path else "scan"] += 1
            try:
                ok, why = well_typed(diagram)
            except Exception as err:   # half-initialised subclass attributes
                ok, why = True, ""
                self.by_path["scan_error:" + type(err).__name__] =\
                    self.by_path.get("scan_error:" + type(err).__name__, 0) + 1
            if ok and self.violate and len(self.recent) < 6000:
                try:
                    self.recent.append((diagram, fingerprint(diagram), name))
                except Exception:
                    pass
            if not ok:
                self.illtyped += 1
                if self.violate:
                    frames, frame = [], sys._getframe(2)
                    while frame is not None and len(frames) < 8:
                        code = frame.f_code
                        if "/discopy/" in code.co_filename:
                            frames.append("{}:{}".format(
                                code.co_qualname, frame.f_lineno))
                        frame = frame.f_back
                    self.ctx.fail(
                        "L1-constructed-diagram-ill-typed", reason=why,
                        cls=name, fast_path=fast_path, stack=frames,
                        during_request=getattr(self.ctx, "current_request", None),
                        diagram=lambda: safe_repr(diagram))
        finally:
            self._depth -= 1

    def end_of_case(self):
        """
        Histories: a diagram that was well-typed when it was built must still
        be so at the end of the case (after generators that yielded it have
        advanced, after it was used as an operand, ...).  Only values whose
        cheap fingerprint changed are scanned again.
        """
        recent, self.recent = self.recent, []
        self._depth += 1
        try:
            for diagram, before, name in recent:
                self.rechecked += 1
                try:
                    now = fingerprint(diagram)
                except Exception as err:
                    now = "fingerprint raised " + type(err).__name__
                if now == before:
                    continue
                self.changed_after_construction += 1
                try:
                    ok, why = well_typed(diagram)
                except Exception as err:
                    ok, why = False, "scan raised " + type(err).__name__
                if not ok:
                    self.ctx.fail(
                        "L1-diagram-ill-typed-after-later-operations",
                        reason=why, cls=name,
                        fingerprint_at_construction=repr(before)[:300],
                        fingerprint_now=repr(now)[:300],
                        diagram=lambda: safe_repr(diagram))
        finally:
            self._depth -= 1

    def report(self):
        return {"constructions_checked": self.seen,
                "rechecked_at_end_of_case": self.rechecked,
                "changed_after_construction": self.changed_after_construction,
                "illtyped_seen": self.illtyped,
                "by_class": dict(sorted(self.by_class.items())),
                "by_path": self.by_path}


def fingerprint(diagram):
    """
    Cheap identity of a diagram's encoding (public accessors only).  dom/cod
    are left out: subclasses (Tensor, CQMap, Functor images) legitimately
    re-assign them after the base constructor has returned.
    """
    return (tuple(diagram.offsets), tuple(map(id, diagram.boxes)),
            len(diagram.layers))


def safe_repr(x, limit=1500):
    try:
        return repr(x)[:limit]
    except Exception as err:
        return "<repr failed: {}: {}>".format(type(err).__name__, err)


def resolve(spec):
    """
    "discopy.rewriting:snake_removal.find_snake" -> code object.
    Attribute path first (classes, properties, staticmethods), then nested
    function names looked up in co_consts.
    """
    modname, _, path = spec.partition(":")
    obj = importlib.import_module(modname)
    parts = path.split(".")
    code = None
    while parts:
        part = parts[0]
        if code is None:
            if isinstance(obj, type) and part in vars(obj):
                nxt = vars(obj)[part]
            elif hasattr(obj, part):
                nxt = getattr(obj, part)
            else:
                return None
            parts.pop(0)
            if isinstance(nxt, (staticmethod, classmethod)):
                nxt = nxt.__func__
            if isinstance(nxt, property):
                nxt = nxt.fget
            nxt = getattr(nxt, "__wrapped__", nxt)
            if isinstance(nxt, (types.FunctionType, types.MethodType)):
                code = nxt.__code__
            obj = nxt
        else:
            inner = [c for c in code.co_consts
                     if isinstance(c, types.CodeType) and c.co_name == part]
            if not inner:
                return None
            code = inner[0]
            parts.pop(0)
    return code


def executable_lines(code):
    lines = {line for _, _, line in code.co_lines() if line is not None}
    lines.discard(code.co_firstlineno)
    return sorted(lines)


class Coverage:
    def __init__(self, specs):
        self.specs = dict(specs)
        self.codes = {}       # spec -> code
        self.hits = {}        # code -> set(lines)
        self.active = False

    def start(self):
        mon = getattr(sys, "monitoring", None)
        for spec in self.specs:
            try:
                self.codes[spec] = resolve(spec)
            except Exception:
                self.codes[spec] = None
        if mon is None:
            return
        self.tool = mon.COVERAGE_ID
        try:
            mon.use_tool_id(self.tool, "verif-coverage")
        except ValueError:
            return
        hits = self.hits

        def on_line(code, line):
            hits.setdefault(code, set()).add(line)
            return mon.DISABLE
        mon.register_callback(self.tool, mon.events.LINE, on_line)
        for code in self.codes.values():
            if code is not None:
                mon.set_local_events(self.tool, code, mon.events.LINE)
        self.active = True

    def stop(self):
        if self.active:
            mon = sys.monitoring
            for code in self.codes.values():
                if code is not None:
                    mon.set_local_events(self.tool, code, 0)
            mon.register_callback(self.tool, mon.events.LINE, None)
            mon.free_tool_id(self.tool)
            self.active = False

    def report(self):
        out = {}
        for spec, code in self.codes.items():
            if code is None:
                out[spec] = {"lines": [], "hit": [], "missing_anchor": True}
                continue
            lines = executable_lines(code)
            hit = sorted(self.hits.get(code, set()) & set(lines))
            out[spec] = {"lines": lines, "hit": hit}
        return out
