#!/bin/bash
# Offline setup: nothing to build; verify the interpreter and third-party imports.
set -e
cd "$(dirname "$0")"
mkdir -p evidence replays
/venv/bin/python - <<'PY'
import sys
assert sys.version_info >= (3, 12), sys.version
import numpy, sympy, networkx, matplotlib, pytket, pyzx   # noqa
sys.path.insert(0, "/repo")
import discopy
print("setup ok: python", sys.version.split()[0], "discopy", discopy.__version__, discopy.__file__)
PY
