#!/usr/bin/env python3
"""
tools/summary.py [evidence dir]: one line per check from the evidence files
(total monitor evaluations, cases, distinct non-trivial cases, wall seconds,
constructions seen by the L1 hook) - the numbers quoted in DESIGN.md 8.1.
"""
import glob
import json
import os
import sys

HERE = os.path.dirname(os.path.dirname(os.path.abspath(__file__)))


def main():
    root = sys.argv[1] if len(sys.argv) > 1 else os.path.join(HERE, "evidence")
    for path in sorted(glob.glob(os.path.join(root, "C*.json"))):
        e = json.load(open(path))
        cov = e["coverage"]
        evals = cov.get("monitor_evaluations", {})
        top = sorted(evals.items(), key=lambda kv: -kv[1])[:3]
        l1 = cov.get("constructor_monitor", {}) or {}
        print("{} tier={} seed={} cases={} distinct={} monitors={} evals={} "
              "wall={}s L1={} known={} top={}".format(
                  e["property_id"], e["tier"], e["seed"], cov.get("evaluations"),
                  cov.get("distinct_nontrivial"), len(evals), sum(evals.values()),
                  e.get("wall_s"), l1.get("constructions_checked"),
                  sum((cov.get("known_findings_absorbed") or {}).values()),
                  ", ".join("{} {}".format(k, v) for k, v in top)))


main()
