#!/venv/bin/python
"""
Runs the repository's pinned suite (guard OFF: the harness is simply not loaded)
and compares with /root/.vp/BASELINE.json: every stable_pass test must pass.
Usage: tools/baseline.py [repo_dir]
"""
import json, os, subprocess, sys, tempfile
import xml.etree.ElementTree as ET

repo = sys.argv[1] if len(sys.argv) > 1 else "/repo"
base = json.load(open("/root/.vp/BASELINE.json"))
with tempfile.TemporaryDirectory() as tmp:
    xml = os.path.join(tmp, "junit.xml")
    env = dict(os.environ, PYTHONPATH=repo, PYTHONDONTWRITEBYTECODE="1")
    env.pop("DISCOPY_VERIF", None)
    subprocess.run(
        ["/venv/bin/python", "-m", "pytest", "-ra", "-q", "-p", "no:cacheprovider",
         "--timeout=900", "--continue-on-collection-errors", "--junitxml=" + xml],
        cwd=repo, env=env, stdout=subprocess.DEVNULL, stderr=subprocess.DEVNULL)
    passed = set()
    for case in ET.parse(xml).getroot().iter("testcase"):
        if not any(child.tag in ("failure", "error", "skipped") for child in case):
            passed.add("{}::{}".format(case.get("classname"), case.get("name")))
missing = [t for t in base["stable_pass"] if t not in passed]
print("baseline: {} of {} stable tests pass".format(
    len(base["stable_pass"]) - len(missing), len(base["stable_pass"])))
for t in missing:
    print("  NOT PASSING:", t)
sys.exit(1 if missing else 0)
