#!/venv/bin/python
"""
Regenerates MANIFEST.json from the property modules present in verif/props.
Properties without a module are listed under not_applicable with the reason
given in PENDING below.
"""
import importlib, json, os, sys
HERE = os.path.dirname(os.path.dirname(os.path.abspath(__file__)))
sys.path.insert(0, HERE)
sys.path.insert(0, "/repo")
props = [json.loads(l) for l in open(os.path.join(HERE, "properties.jsonl"))]
checks, na = [], []
READY = open(os.path.join(HERE, "verif", "props", "READY")).read().split()
for p in props:
    pid = p["id"]
    path = os.path.join(HERE, "verif", "props", pid.lower() + ".py")
    if not os.path.exists(path) or pid not in READY:
        na.append({"property_id": pid, "reason":
                   "runtime-monitoring check designed (DESIGN.md section 3) but not built yet; not claimed"})
        continue
    mod = importlib.import_module("verif.props." + pid.lower())
    checks.append({
        "property_id": pid,
        "quick_cmd": "./vcheck {} --tier quick".format(pid),
        "thorough_cmd": "./vcheck {} --tier thorough".format(pid),
        "evidence_file": "/verif/evidence/{}.json".format(pid),
        "replay_cmd_template": "./vcheck %s --replay {path}" % pid,
        "engine": "vcheck",
        "level_claimed": {
            "category": "exploration",
            "text": mod.LEVEL_TEXT if hasattr(mod, "LEVEL_TEXT") else
            "Held on the executions observed: seeded random and hostile workloads "
            "run against /repo's working tree while independent monitors "
            "(reference models, invariant at the constructor hook, trace checkers) "
            "watch every returned value; no guarantee beyond the cases explored.",
            "design_ref": "DESIGN.md section 3, " + pid},
        "level_note": "; ".join(getattr(mod, "ASSUMPTIONS", [])) or
        "trusted base: CPython, numpy, the harness's own reference models",
        "technique": getattr(mod, "TECHNIQUE",
                             "runtime monitoring: reference-model monitors over seeded workloads"),
    })
manifest = {
    "version": 1,
    "setup_cmd": "./setup.sh",
    "hooks": {
        "guard": "DISCOPY_VERIF",
        "enable": "no source hooks: ./vcheck sets DISCOPY_VERIF=1 and wraps monoidal.Diagram.__init__ in the harness process (verif/instrument.py); with the variable unset nothing is wrapped",
        "baseline_off_cmd": "cd /repo && /venv/bin/python -m pytest -ra -q -p no:cacheprovider --timeout=900 --continue-on-collection-errors",
        "source_commits": [],
        "add_only": True},
    "engines": [{
        "name": "vcheck", "path": "/verif/vcheck",
        "serves_properties": [c["property_id"] for c in checks],
        "kind_free_text": "Python runtime-monitoring harness: per-shard subprocesses with watchdog, seeded workload generators, independent reference models, constructor-invariant hook, sys.monitoring coverage gate"}],
    "checks": checks,
    "not_applicable": na,
    "notes": "All checks run /repo's current working tree (PYTHONPATH=/repo; nothing copied or cached). Known findings and fixed defects are listed in /verif/known_findings.json. Exit codes: 0 held on what was observed, 1 violation (VIOLATION line + replay file), 2 inconclusive (watchdog, coverage gate or monitor never reached).",
}
json.dump(manifest, open(os.path.join(HERE, "MANIFEST.json"), "w"), indent=1)
print("checks:", [c["property_id"] for c in checks])
print("not_applicable:", [c["property_id"] for c in na])
