#!/usr/bin/env python3
"""
tools/mkseedprompt.py C05 [--hard]  ->  prompt text on stdout for a fresh
sub-agent that gets only the property text and a scratch worktree /tmp/wt-c05
(output directory /tmp/wt-c05-out).  Earlier seeded changes of the property are
listed (first lines of their note.md) so that the agent tries something else.
"""
import glob
import json
import os
import sys

HERE = os.path.dirname(os.path.dirname(os.path.abspath(__file__)))
HARD = """This round: at least TWO of your three changes must be of the hard kinds: (i) HISTORY-dependent - the violation appears only after a particular multi-step sequence of API calls on the same objects (state carried by an object, a cache, a mutable default, an attribute set as a side effect, an iterator consumed, aliasing between a result and its argument), or (ii) TWO COOPERATING SITES that each look fine alone. Single-site off-by-one slips count as the easy kind.
"""


SURFACE = """This round: at least TWO of your three changes must sit OFF the beaten track of the code behind the property: a rarely used public entry point or keyword argument (batch calls, optional flags, alternative constructors, variadic forms, `left=`/`mixed=`/`normalize=`-style options), an override in ONE subclass that the other diagram classes do not share, a fallback branch for an unusual argument type (ints vs types, lists vs tuples, callables vs dicts), or an interaction between the anchored code and another module that calls it (parsers, translators, drawing, gradients). The change must still be a violation of the property AS STATED (read its quantifier: every class, option and way of supplying arguments it names is in scope). A change that any straightforward random test of the main entry point would hit at once counts as the easy kind.
"""


ROUND7 = """This round (your time budget is 20 minutes in total, so work fast and keep each change small): each of your two changes must be of a kind from this list, and the two must be of different kinds: (a) VALUE-dependent - only particular values trigger it: wires of dimension 1 or repeated dimensions, complex or integer dtypes, phases that are negative, >= 1, exactly 0 or 1/2, integer rather than float, symbolic expressions with two symbols or a symbol used twice, names that are equal between different kinds of object, very wide or empty types; (b) DELEGATION - the slip sits in a public path that delegates to the anchored code through another feature (formal sums, bubbles, daggered or transposed boxes, negative or stepped slices, variadic `tensor(*others)` / `then(*others)`, `@`/`>>`/`<<` with mixed operand classes, subclasses in quantum/zx/tensor/rigid that override one method); (c) HISTORY - visible only after a particular multi-step sequence of calls on the same objects (mutable state, caches, aliasing between result and argument, consumed iterators). A change that any straightforward random test of the main entry point would hit at once counts as too easy.
"""


def main():
    pid = sys.argv[1].upper()
    low = pid.lower()
    prop = [json.loads(l) for l in open(os.path.join(HERE, "properties.jsonl"))
            if json.loads(l)["id"] == pid][0]
    text = "Title: {}\n\nStatement: {}\n\nQuantifier: {}\n\nWhy the existing "\
        "tests cannot settle it: {}\n\nCode anchors: {}".format(
            prop["title"], prop["statement"], prop["quantifier"]["text"],
            prop["why_tests_cant"], json.dumps(prop["anchors"].get("mechanism", [])))
    tried = []
    for d in sorted(glob.glob(os.path.join(HERE, "seeded", pid + "-*"))):
        note = os.path.join(d, "note.md")
        if os.path.exists(note):
            lines = [l.strip() for l in open(note) if l.strip()
                     and not l.startswith("#")]
            if lines:
                tried.append(" - " + lines[0].lstrip("-* ")[:330])
    template = open(os.path.join(HERE, "docs", "SEED_PROMPT_TEMPLATE.txt")).read()
    out = template.replace("PID", low).replace("PROPERTY_TEXT", text)
    extra = ""
    if tried:
        extra = "Already tried by others (do NOT repeat these or close variants; "\
            "pick other functions, other branches, other mechanisms - the whole "\
            "code base behind the property is fair game, including helpers and "\
            "base classes it relies on):\n" + "\n".join(tried) + "\n\n"
    if "--hard" in sys.argv:
        extra += HARD + "\n"
    if "--surface" in sys.argv:
        extra += SURFACE + "\n"
    if "--round7" in sys.argv:
        extra += ROUND7 + "\n"
    else:
        out = out.replace("produce TWO different", "produce THREE different")\
            .replace("k in {1, 2} write", "k in {1, 2, 3} write")\
            .replace("of the two changes", "of the three changes")
    marker = "Your task:"
    out = out.replace(marker, extra + marker, 1)
    sys.stdout.write(out)


main()
