#!/venv/bin/python
"""
Evaluate seeded changes (independently written property-breaking patches).

    tools/seeded.py seeded/<id>            # confirm + run the property's quick check
    tools/seeded.py seeded/<id> --tier thorough
    tools/seeded.py --all

For a directory holding patch.diff, demo.py and meta.json ({"property": ...}):
  1. demo.py must exit 0 on /repo as it is;
  2. a scratch copy of /repo (under $TMPDIR, removed afterwards) gets the patch;
     demo.py must exit non-zero there;
  3. the repository's own suite must still pass on the copy;
  4. ./vcheck <property> is run with VERIF_REPO=<copy>; exit 1 = caught.
/repo itself is never modified.
"""
import json
import os
import shutil
import subprocess
import sys
import tempfile

HERE = os.path.dirname(os.path.dirname(os.path.abspath(__file__)))


def evaluate(directory, tier="quick", props=None, baseline=True):
    meta_path = os.path.join(directory, "meta.json")
    meta = json.load(open(meta_path)) if os.path.exists(meta_path) else {}
    props = props or [meta.get("property")]
    directory = os.path.abspath(directory)
    demo = os.path.join(directory, "demo.py")
    out = {"dir": directory}
    env = dict(os.environ, PYTHONPATH="/repo", PYTHONDONTWRITEBYTECODE="1",
               MPLBACKEND="Agg")
    res = subprocess.run(["/venv/bin/python", demo], env=env, capture_output=True,
                         text=True, cwd=directory, timeout=600)
    out["demo_unchanged_exit"] = res.returncode
    tmp = tempfile.mkdtemp(prefix="discopy-seeded-")
    copy = os.path.join(tmp, "repo")
    try:
        shutil.copytree("/repo", copy, ignore=shutil.ignore_patterns(
            ".git", "__pycache__", "docs", "*.egg-info", ".pytest_cache"))
        res = subprocess.run(["patch", "-p1", "-s", "-i",
                              os.path.abspath(os.path.join(directory, "patch.diff"))],
                             cwd=copy, capture_output=True, text=True)
        out["patch_applies"] = res.returncode == 0
        if res.returncode != 0:
            out["patch_output"] = (res.stdout + res.stderr)[-300:]
            return out
        env["PYTHONPATH"] = copy
        res = subprocess.run(["/venv/bin/python", demo], env=env,
                             capture_output=True, text=True, cwd=directory,
                             timeout=600)
        out["demo_changed_exit"] = res.returncode
        out["demo_changed_tail"] = (res.stdout + res.stderr).strip()[-300:]
        if baseline:
            res = subprocess.run([os.path.join(HERE, "tools", "baseline.py"), copy],
                                 capture_output=True, text=True)
            out["repo_tests_pass"] = res.returncode == 0
        for pid in props:
            env2 = dict(os.environ, VERIF_REPO=copy,
                        VERIF_EVIDENCE_DIR=os.path.join(tmp, "evidence"),
                        VERIF_REPLAY_DIR=os.path.join(tmp, "replays"))
            res = subprocess.run([os.path.join(HERE, "vcheck"), pid, "--tier", tier],
                                 capture_output=True, text=True, env=env2)
            lines = [l for l in res.stdout.splitlines()
                     if l.startswith(("VIOLATION", "INCONCLUSIVE", "  monitor="))]
            out["check_" + pid] = {"exit": res.returncode,
                                   "lines": [l[:260] for l in lines[:4]]}
        return out
    finally:
        shutil.rmtree(tmp, ignore_errors=True)


def main():
    args = [a for a in sys.argv[1:] if not a.startswith("--")]
    tier = "thorough" if "--thorough" in sys.argv else "quick"
    props = None
    for a in sys.argv[1:]:
        if a.startswith("--props="):
            props = a.split("=", 1)[1].split(",")
    if "--all" in sys.argv:
        root = os.path.join(HERE, "seeded")
        args = sorted(os.path.join(root, d) for d in os.listdir(root)
                      if os.path.isdir(os.path.join(root, d)))
    status = 0
    for directory in args:
        res = evaluate(directory, tier, props, "--no-baseline" not in sys.argv)
        print(json.dumps(res, indent=1), flush=True)
        caught = any(v.get("exit") == 1 for k, v in res.items()
                     if k.startswith("check_"))
        if "--record" in sys.argv:
            meta_path = os.path.join(directory, "meta.json")
            meta = json.load(open(meta_path)) if os.path.exists(meta_path) else {}
            confirmed = res.get("demo_unchanged_exit") == 0\
                and res.get("demo_changed_exit") not in (0, None)\
                and res.get("repo_tests_pass") is True
            meta["confirmed"] = {
                "demo_exit_on_unchanged_tree": res.get("demo_unchanged_exit"),
                "demo_exit_with_change": res.get("demo_changed_exit"),
                "repo_suite_passes_with_change": res.get("repo_tests_pass"),
                "all_confirmed": confirmed,
                "how": "tools/seeded.py: scratch copy of /repo + patch -p1, "
                       "demo.py on both trees, tools/baseline.py on the copy"}
            meta.setdefault("checks", {})
            for k, v in res.items():
                if k.startswith("check_"):
                    meta["checks"][k[6:] + ":" + tier] = {
                        "exit": v["exit"], "caught": v["exit"] == 1,
                        "first_lines": v["lines"][:2]}
            json.dump(meta, open(meta_path, "w"), indent=1)
        print("==> {} {}".format(directory, "CAUGHT" if caught else "MISSED"),
              flush=True)
        status |= 0 if caught else 1
    return status


if __name__ == "__main__":
    sys.exit(main())
