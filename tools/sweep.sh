#!/bin/bash
# tools/sweep.sh [tier] [seeds...]  : run every READY check (or $SWEEP_PROPS) on several seeds, print exit codes
cd "$(dirname "$0")/.."
tier=${1:-quick}; shift
seeds=${@:-0 1 2 3 4}
export VERIF_EVIDENCE_DIR=${VERIF_EVIDENCE_DIR:-$(mktemp -d)}
export VERIF_REPLAY_DIR=${VERIF_REPLAY_DIR:-$VERIF_EVIDENCE_DIR/replays}
for p in ${SWEEP_PROPS:-$(cat verif/props/READY)}; do
  for s in $seeds; do
    start=$(date +%s)
    out=$(VERIF_SEED=$s ./vcheck $p --tier $tier 2>&1); code=$?
    echo "$p seed=$s exit=$code $(( $(date +%s) - start ))s $(echo "$out" | grep -E 'VIOLATION|INCONCLUSIVE|monitor=' | head -3 | cut -c1-220 | tr '\n' '|')"
  done
done
