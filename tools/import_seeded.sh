#!/bin/bash
# tools/import_seeded.sh c05 C05   -> copies /tmp/wt-c05-out/change-* to the next free seeded/C05-<k>
low=$1; pid=$2; cd "$(dirname "$0")/.."
for src in /tmp/wt-$low-out/change-*; do
  [ -f "$src/patch.diff" ] || continue
  k=1; while [ -d seeded/$pid-$k ]; do k=$((k+1)); done
  dst=seeded/$pid-$k; mkdir -p $dst
  cp $src/patch.diff $src/demo.py $dst/ ; cp $src/note.md $dst/ 2>/dev/null
  /venv/bin/python - "$dst" "$pid" <<'PY'
import json, sys, os
dst, pid = sys.argv[1:]
note = open(os.path.join(dst, "note.md")).read() if os.path.exists(os.path.join(dst, "note.md")) else ""
json.dump({"property": pid, "source": "independent sub-agent given only the property text and a scratch worktree",
           "needs_to_manifest": note.strip()[:1500]}, open(os.path.join(dst, "meta.json"), "w"), indent=1)
PY
  echo $dst
done
