#!/venv/bin/python
"""
Mutation self-test (not a registered check).

For each mutant in selftest/mutants.json: copy /repo to a scratch directory
under $TMPDIR, apply ONE textual replacement, run the repository's own suite
on the copy (a mutant that fails it is not a realistic change and is reported
as such), run the quick check of the property against the copy
(VERIF_REPO=<copy>), record exit code, remove the copy.

    tools/selftest.py                 # all mutants
    tools/selftest.py C05             # mutants of one property
    tools/selftest.py C05/left-branch # one mutant
    --no-baseline                     # skip the repository suite
"""
import json
import os
import shutil
import subprocess
import sys
import tempfile

HERE = os.path.dirname(os.path.dirname(os.path.abspath(__file__)))


def run_mutant(m, baseline=True):
    tmp = tempfile.mkdtemp(prefix="discopy-mut-")
    copy = os.path.join(tmp, "repo")
    try:
        shutil.copytree("/repo", copy, ignore=shutil.ignore_patterns(
            ".git", "__pycache__", "docs", "*.egg-info", ".pytest_cache"))
        path = os.path.join(copy, m["file"])
        src = open(path).read()
        count = src.count(m["old"])
        if count != m.get("occurrences", 1):
            return {"status": "patch-does-not-apply", "count": count}
        src = src.replace(m["old"], m["new"])
        open(path, "w").write(src)
        out = {}
        if baseline:
            res = subprocess.run(
                [os.path.join(HERE, "tools", "baseline.py"), copy],
                capture_output=True, text=True)
            out["repo_tests_pass"] = res.returncode == 0
            if res.returncode != 0:
                out["repo_tests_output"] = res.stdout[-400:]
        env = dict(os.environ, VERIF_REPO=copy)
        env["VERIF_EVIDENCE_DIR"] = os.path.join(tmp, "evidence")
        env["VERIF_REPLAY_DIR"] = os.path.join(tmp, "replays")
        res = subprocess.run(
            [os.path.join(HERE, "vcheck"), m["property"], "--tier", "quick"],
            capture_output=True, text=True, env=env)
        out["exit"] = res.returncode
        lines = [l for l in res.stdout.splitlines()
                 if l.startswith(("VIOLATION", "INCONCLUSIVE", "  monitor="))]
        out["lines"] = [l[:300] for l in lines[:4]]
        expect = m.get("expect", "caught")
        out["status"] = ("ok" if (expect == "caught" and res.returncode == 1)
                         or (expect == "silent" and res.returncode == 0)
                         else "UNEXPECTED")
        return out
    finally:
        shutil.rmtree(tmp, ignore_errors=True)


def main():
    args = [a for a in sys.argv[1:] if not a.startswith("--")]
    baseline = "--no-baseline" not in sys.argv
    mutants = json.load(open(os.path.join(HERE, "selftest", "mutants.json")))
    selected = [m for m in mutants if not args or any(
        m["id"] == a or m["property"] == a for a in args)]
    results = {}
    for m in selected:
        res = run_mutant(m, baseline)
        results[m["id"]] = res
        print("{:<40} {:<10} exit={} repo_tests_pass={} {}".format(
            m["id"], res["status"], res.get("exit"),
            res.get("repo_tests_pass"), " | ".join(res.get("lines", []))[:200]),
            flush=True)
    bad = [k for k, v in results.items() if v["status"] != "ok"]
    print("{} mutants, {} unexpected: {}".format(len(results), len(bad), bad))
    return 1 if bad else 0


if __name__ == "__main__":
    sys.exit(main())
